#!/bin/sh
# setup_cmd: nothing to build (pure Python); verify that the interpreter that has the repository
# installed can import what the framework needs, installing hypothesis from the offline wheelhouse
# only if it is missing.
cd "$(dirname "$0")" || exit 2
if ! /venv/bin/python -c "import hypothesis, numpy, scipy" 2>/dev/null; then
  /venv/bin/pip install --no-index --find-links /opt/veriftools/wheels hypothesis numpy scipy || exit 2
fi
/venv/bin/python -c "import hypothesis, numpy, scipy; print('hypothesis', hypothesis.__version__, 'numpy', numpy.__version__)" || exit 2
mkdir -p evidence out
exit 0
