#!/bin/sh
# setup_cmd: nothing to build (pure Python); verify that the interpreter that has the repository
# installed can import what the framework needs, installing hypothesis from the offline wheelhouse
# only if it is missing.
cd "$(dirname "$0")" || exit 2
if ! /venv/bin/python -c "import hypothesis, numpy, scipy" 2>/dev/null; then
  /venv/bin/pip install --no-index --find-links /opt/veriftools/wheels hypothesis numpy scipy || exit 2
fi
/venv/bin/python -c "import hypothesis, numpy, scipy; print('hypothesis', hypothesis.__version__, 'numpy', numpy.__version__)" || exit 2
# atheris (coverage-guided stage of the thorough tier) goes beside the framework, not into /venv; if it cannot be
# installed the thorough tier records the stage as skipped and the Hypothesis tiers are unaffected
if [ ! -d .deps/atheris ]; then
  /venv/bin/pip install -q --no-index --find-links /opt/veriftools/wheels --target .deps atheris >/dev/null 2>&1 || echo "setup: atheris not installed (coverage-guided stage will be skipped)"
fi
mkdir -p evidence out
exit 0
