"""Hypothesis strategies shared by the property modules.  Everything is built by construction
(no filter/assume in the hot paths) and returns JSON-able values."""
import numpy as np
from hypothesis import strategies as st
from hypothesis.extra import numpy as hnp

# ---------------------------------------------------------------------------------------------
# shapes
# ---------------------------------------------------------------------------------------------
SIDE = st.sampled_from([1, 1, 2, 2, 3, 3, 4])
BIG_SIDE = st.sampled_from([5, 6, 7, 8, 9, 11, 16, 17, 32])


@st.composite
def shapes(draw, min_rank=0, max_rank=4, max_elems=120, side=SIDE):
    r = draw(st.sampled_from([k for k in (0, 1, 1, 2, 2, 2, 3, 3, 3, 4, 4, 5) if min_rank <= k <= max_rank]))
    shp = []
    n = 1
    # one case in eight uses large sides (>= 5, up to 32) and four times the element budget
    big = side is SIDE and draw(st.integers(0, 7)) == 0
    if big:
        max_elems = max_elems * 4
    for _ in range(r):
        s = draw(BIG_SIDE if big and draw(st.booleans()) else side)
        if n * s > max_elems:
            s = 1
        shp.append(s)
        n *= s
    return shp


@st.composite
def broadcast_shapes(draw, n=2, max_rank=4, max_elems=120):
    """Draw the result shape, then derive each operand by dropping a prefix and replacing a random
    subset of the remaining dims with 1 - yields every NumPy broadcasting pattern (incl. 0-d)."""
    res = draw(shapes(0, max_rank, max_elems))
    ops = []
    for _ in range(n):
        drop = draw(st.integers(0, len(res))) if draw(st.booleans()) else 0
        shp = list(res[drop:])
        for i in range(len(shp)):
            if draw(st.integers(0, 3)) == 0:
                shp[i] = 1
        ops.append(shp)
    # make sure the result shape is actually reached by at least one operand per dim
    full = draw(st.integers(0, n - 1))
    if draw(st.integers(0, 3)) != 0:
        ops[full] = list(res)
    return ops


# ---------------------------------------------------------------------------------------------
# values: small exact grids (k/8) so that shrinking ends at simple numbers and float32 is exact
# ---------------------------------------------------------------------------------------------
def _size(shape):
    n = 1
    for s in shape:
        n *= s
    return n


def grid(shape, lo=-24, hi=24, denom=8.0):
    """values k/denom, k in [lo, hi]; returned as flat list of floats"""
    n = _size(shape)
    return hnp.arrays(np.int16, (n,), elements=st.integers(lo, hi), fill=st.nothing()).map(
        lambda a: (a.astype(np.float64) / denom).tolist())


def grid_away_from_zero(shape, lo=1, hi=24, denom=8.0):
    """|x| in [lo/denom, hi/denom], either sign"""
    n = _size(shape)
    return st.tuples(hnp.arrays(np.int16, (n,), elements=st.integers(lo, hi), fill=st.nothing()),
                     hnp.arrays(np.bool_, (n,), fill=st.nothing())).map(
        lambda t: (np.where(t[1], -1.0, 1.0) * t[0].astype(np.float64) / denom).tolist())


def grid_positive(shape, lo=2, hi=24, denom=8.0):
    n = _size(shape)
    return hnp.arrays(np.int16, (n,), elements=st.integers(lo, hi), fill=st.nothing()).map(
        lambda a: (a.astype(np.float64) / denom).tolist())


def distinct(shape, denom=8.0):
    """all elements pairwise distinct (gap >= 1/denom), both signs: a drawn permutation"""
    n = _size(shape)
    if n == 0:
        return st.just([])
    return st.tuples(st.permutations(list(range(n))), st.integers(-n, 0)).map(
        lambda t: [(v + t[1]) / denom for v in t[0]])


def upstream(n_pool=24):
    """pool of upstream-gradient values, cycled to the size of the output"""
    return hnp.arrays(np.int16, (n_pool,), elements=st.integers(-16, 16), fill=st.nothing()).map(
        lambda a: (a.astype(np.float64) / 8.0).tolist())


def cyc(pool, shape, dtype=np.float64):
    n = _size(shape)
    p = np.asarray(pool, dtype=np.float64)
    if n == 0:
        return np.zeros(shape, dtype=dtype)
    return p[np.arange(n) % len(p)].reshape(shape).astype(dtype)


def arr(flat, shape, dtype=np.float64):
    return np.asarray(flat, dtype=np.float64).reshape(shape).astype(dtype)


DTYPES = st.sampled_from(["float64", "float64", "float32"])


# ---------------------------------------------------------------------------------------------
# sliding-window geometries
# ---------------------------------------------------------------------------------------------
@st.composite
def axis_geom(draw, kmax=3, smax=3, dmax=3, pmax=3, extra_max=3, pad_half=False):
    k = draw(st.integers(1, kmax))
    s = draw(st.integers(1, smax))
    d = draw(st.integers(1, dmax))
    span = d * (k - 1) + 1
    pm = pmax if not pad_half else min(pmax, span // 2)
    p = draw(st.integers(0, pm))
    L = max(1, span - 2 * p) + draw(st.sampled_from(list(range(extra_max + 1)) * 3 + [7, 9, 14]))
    return {"k": k, "s": s, "d": d, "p": p, "L": L}


def spell(draw, a, b, kinds=("int", "tuple", "list")):
    """int / tuple / list spelling of a per-axis pair, JSON-able: {"v": [a, b], "as": kind}"""
    ks = [k for k in kinds if k != "int" or a == b]
    return {"v": [a, b], "as": draw(st.sampled_from(ks))}


def realize(sp):
    if not isinstance(sp, dict):
        return sp
    a, b = sp["v"]
    if sp["as"] == "int":
        return int(a)
    if sp["as"] == "tuple":
        return (int(a), int(b))
    if sp["as"] == "ndarray":
        return np.array([a, b])
    return [int(a), int(b)]
