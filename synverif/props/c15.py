"""C15 - weight initialisers fill tensors with the documented distribution, in place."""
import math

import numpy as np
from hypothesis import strategies as st
from scipy import stats

from ..core import SubCheck, Violation
from ..env import sg

Tensor = sg.Tensor
nn = sg.nn
init = sg.nn.init

RULE = ("cases: initialiser x shape (rank>=2 for the fan-based ones, >=1 otherwise; 4096-40000 elements for the "
        "statistical assertions, small shapes for the structural ones) x gain / mode / nonlinearity / negative slope "
        "x dtype x requires_grad flag x seed; Linear/Conv1d/Conv2d constructors over drawn fan-ins.  Oracle: "
        "returned object is the argument, shape/dtype/flag unchanged; independently computed fan_in/fan_out, gain "
        "table and documented scale; uniform fillers: all samples within the bound, max close to it, mean/std "
        "within 6 standard errors; normal fillers: mean/std within 6 standard errors + KS test at 1e-9; constants "
        "exact; unknown mode/nonlinearity raise ValueError.  non-trivial: fan_in != fan_out and (gain != 1 or "
        "non-default mode/nonlinearity/slope), n >= 4096; distinct by hash of the case"
        " Also: rank up to 6, memory layouts, ambient no_grad/retain_grads, nn.Parameter tensors, fill values not representable in float32."
        " Round 5: NumPy-float slopes; an initialiser raising on a documented argument is a violation."
        " Round 6: conv layers constructed with stride / dilation / padding options (range checked from both sides)."
        " Round 7: option strings built at run time (equal, not identical), read-only and broadcast buffers.")
ASSUMPTIONS = ["6-sigma / 1e-9 statistical bounds with the library seeded by a Hypothesis-drawn integer",
               "gain table and fan computation transcribed from the docstrings (PyTorch conventions)"]

GAINS = {"linear": 1.0, "conv1d": 1.0, "conv2d": 1.0, "sigmoid": 1.0, "tanh": 5.0 / 3, "relu": math.sqrt(2.0), "selu": 0.75}


def ref_gain(nl, a):
    if nl == "leaky_relu":
        return math.sqrt(2.0 / (1 + a * a))
    return GAINS[nl]


@st.composite
def big_shape(draw, min_rank=2):
    r = draw(st.sampled_from([k for k in (1, 2, 2, 3, 4, 5, 5, 6) if k >= min_rank]))
    if r == 1:
        return [draw(st.sampled_from([4096, 10000, 20000]))]
    a = draw(st.sampled_from([8, 16, 32, 64, 100, 128]))
    b = draw(st.sampled_from([8, 16, 32, 64, 50, 256]))
    rest = [draw(st.sampled_from([1, 2, 3, 5] if r <= 4 else [1, 2, 3])) for _ in range(r - 2)]
    shp = [a, b] + rest
    n = int(np.prod(shp))
    while n < 4096:
        shp[1] *= 2
        n *= 2
    while n > 40000:
        if shp[0] >= shp[1] and shp[0] > 4:
            shp[0] //= 2
        elif shp[1] > 4:
            shp[1] //= 2
        else:
            shp[-1] = 1
        n = int(np.prod(shp))
    return shp


@st.composite
def init_cases(draw):
    name = draw(st.sampled_from(["uniform_", "normal_", "constant_", "ones_", "zeros_", "xavier_uniform_", "xavier_normal_",
                                 "kaiming_uniform_", "kaiming_normal_", "xavier_uniform_", "xavier_normal_",
                                 "kaiming_uniform_", "kaiming_normal_"]))
    fan_based = name.startswith(("xavier", "kaiming"))
    c = {"init": name, "shape": draw(big_shape(2 if fan_based else 1)),
         "dtype": draw(st.sampled_from(["float32", "float32", "float64"])),
         "rg": draw(st.booleans()), "seed": draw(st.integers(0, 2 ** 31 - 1)),
         "layout": draw(st.sampled_from(["C", "C", "F", "strided", "transposed_view", "readonly", "broadcast_readonly"])),
         # the global modes in force while the initialiser runs (initialising under no_grad is the usual idiom)
         "ambient": draw(st.sampled_from(["none", "none", "no_grad", "no_grad", "retain_grads"])),
         "param": draw(st.booleans())}
    if name == "uniform_":
        lo = draw(st.sampled_from([0.0, -1.0, -0.05, 2.0]))
        c["a"], c["b"] = lo, lo + draw(st.sampled_from([1.0, 0.1, 3.0]))
        c["defaults"] = draw(st.booleans())
    elif name == "normal_":
        c["mean"], c["std"] = draw(st.sampled_from([0.0, 1.5, -2.0])), draw(st.sampled_from([1.0, 0.02, 3.0]))
        c["defaults"] = draw(st.booleans())
    elif name == "constant_":
        c["val"] = draw(st.sampled_from([0.0, 1.0, -2.5, 0.3, 7, 0.1, 1e-60, 16777217, -1e60, 1 / 3]))
    elif name.startswith("xavier"):
        c["gain"] = draw(st.sampled_from([1.0, 1.0, 0.1, 0.5, 2.0, 4.0, 5.0 / 3]))
        c["default_gain"] = c["gain"] == 1.0 and draw(st.booleans())
    elif name.startswith("kaiming"):
        c["mode"] = draw(st.sampled_from(["fan_in", "fan_in", "fan_out"]))
        c["nl"] = draw(st.sampled_from(["leaky_relu", "leaky_relu", "leaky_relu", "relu", "tanh", "linear", "sigmoid", "selu", "conv2d", "conv1d"]))
        c["a"] = draw(st.sampled_from([0, 0.01, 0.5, 1.0, 2.0, -1.0, 3.0]))
        c["a_np"] = draw(st.sampled_from([False, False, True]))     # the slope as a NumPy float64 (e.g. np.sqrt(5)): still a float
        c["defaults"] = draw(st.integers(0, 3)) == 0
    return c


def _stats_uniform(name, d, lo, hi, ctx, dtype=np.float32):
    n = d.size
    # samples are stored in the tensor's dtype: a bound may be hit after rounding to that dtype
    eps = 4 * float(np.finfo(dtype).eps) * max(abs(lo), abs(hi), 1e-30)
    if d.min() < lo - eps or d.max() > hi + eps:
        raise Violation("bound", f"{name}: samples outside the documented bounds [{lo}, {hi}]: min {d.min()} max {d.max()}; {ctx}", region=name)
    w = hi - lo
    if d.max() < hi - w * 20.0 / n or d.min() > lo + w * 20.0 / n:
        raise Violation("bound", f"{name}: samples do not fill the documented interval [{lo}, {hi}]: min {d.min()} max {d.max()}; {ctx}", region=name)
    mu, sd = (lo + hi) / 2, w / math.sqrt(12)
    if abs(d.mean() - mu) > 6 * sd / math.sqrt(n):
        raise Violation("mean", f"{name}: sample mean {d.mean()} is more than 6 standard errors from {mu}; {ctx}", region=name)
    # std of the sample std for a uniform law: sd * sqrt((kurt-1)/(4n)), kurt = 1.8
    if abs(d.std() - sd) > 6 * sd * math.sqrt(0.8 / (4 * n)) + 1e-12:
        raise Violation("std", f"{name}: sample std {d.std()} vs documented {sd}; {ctx}", region=name)


def _stats_normal(name, d, mu, sd, ctx):
    n = d.size
    if abs(d.mean() - mu) > 6 * sd / math.sqrt(n):
        raise Violation("mean", f"{name}: sample mean {d.mean()} is more than 6 standard errors from {mu}; {ctx}", region=name)
    if abs(d.std() - sd) > 6 * sd / math.sqrt(2 * n):
        raise Violation("std", f"{name}: sample std {d.std():.6g} but the documented std is {sd:.6g}; {ctx}", region=name)
    p = float(stats.kstest((d.ravel() - mu) / sd, "norm").pvalue)
    if p < 1e-9:
        raise Violation("distribution", f"{name}: KS test against N({mu},{sd}^2) rejects (p={p:.2e}); {ctx}", region=name)


def check_init(c, rec):
    name = c["init"]
    dt = np.dtype(c["dtype"])
    shp = tuple(c["shape"])
    base = np.full(shp, 123.0, dtype=dt)
    lay = c.get("layout", "C")
    if lay == "F" and len(shp) >= 2:
        base = np.asfortranarray(base)
    elif lay == "strided":
        base = np.full(shp[:-1] + (2 * shp[-1],), 123.0, dtype=dt)[..., ::2]
    elif lay == "transposed_view" and len(shp) >= 2:
        base = np.full(shp[::-1], 123.0, dtype=dt).T
    elif lay == "readonly":
        base = np.frombuffer(np.full(shp, 123.0, dtype=dt).tobytes(), dtype=dt).reshape(shp)      # not writeable
        rec.tag("readonly_buffer")
    elif lay == "broadcast_readonly":
        base = np.broadcast_to(np.asarray(123.0, dtype=dt), shp)                                    # stride 0, not writeable
        rec.tag("readonly_buffer")
    t = Tensor(base, requires_grad=c["rg"])
    if c.get("param") and c["rg"]:
        t = sg.nn.Parameter(t)
        rec.tag("nn.Parameter")
    ctx = f"{c}"
    fan_in = shp[1] * int(np.prod(shp[2:])) if len(shp) >= 2 else None
    fan_out = shp[0] * int(np.prod(shp[2:])) if len(shp) >= 2 else None
    sg.manual_seed(c["seed"])
    raw_fn = getattr(init, name)
    amb = c.get("ambient", "none")
    rec.tag("ambient_" + amb)

    def fn(*a, **k):
        try:
            if amb == "no_grad":
                with sg.no_grad():
                    return raw_fn(*a, **k)
            if amb == "retain_grads":
                with sg.retain_grads():
                    return raw_fn(*a, **k)
            return raw_fn(*a, **k)
        except Exception as e:  # noqa: BLE001 - every argument combination generated here is documented
            raise Violation("raised", f"{name}{a[1:]}{k} raised {type(e).__name__}: {e}; {ctx}", region=name)

    if name == "uniform_":
        ret = fn(t) if c["defaults"] else fn(t, c["a"], c["b"])
        lo, hi = (0.0, 1.0) if c["defaults"] else (c["a"], c["b"])
    elif name == "normal_":
        ret = fn(t) if c["defaults"] else fn(t, c["mean"], c["std"])
        mu, sd = (0.0, 1.0) if c["defaults"] else (c["mean"], c["std"])
    elif name == "constant_":
        ret = fn(t, c["val"])
    elif name in ("ones_", "zeros_"):
        ret = fn(t)
    elif name.startswith("xavier"):
        ret = fn(t) if c["default_gain"] else fn(t, c["gain"])
        gain = c["gain"]
    else:
        if c["defaults"]:
            ret = fn(t)
            mode, nl, a = "fan_in", "leaky_relu", 0
        else:
            # the option strings are built at run time (as when they come from a config file): equal, not identical, objects
            ret = fn(t, a=np.float64(c["a"]) if c.get("a_np") else c["a"], mode="".join(list(c["mode"])), nonlinearity="".join(list(c["nl"])))
            mode, nl, a = c["mode"], c["nl"], c["a"]
        gain = ref_gain(nl, a)
        fan = fan_in if mode == "fan_in" else fan_out
    if ret is not t:
        raise Violation("identity", f"{name} did not return the tensor it was given", region=name)
    if t.shape != shp or t.dtype != dt or t.requires_grad != c["rg"]:
        raise Violation("metadata", f"{name} changed shape/dtype/requires_grad: {t.shape} {t.dtype} {t.requires_grad}; {ctx}", region=name)
    d = np.asarray(t.data, dtype=np.float64)
    nt = False
    if name == "uniform_":
        _stats_uniform(name, d, lo, hi, ctx, dt)
        nt = not c["defaults"]
    elif name == "normal_":
        _stats_normal(name, d, mu, sd, ctx)
        nt = not c["defaults"]
    elif name == "constant_":
        with np.errstate(all="ignore"):
            wantv = np.asarray(c["val"], dtype=np.float64).astype(dt)
        if not np.all(t.data == wantv):
            raise Violation("value", f"constant_: tensor holds {np.asarray(t.data).ravel()[0]!r}, not {c['val']!r} rounded once to {dt}", region=name)
    elif name == "ones_":
        if not np.all(t.data == 1):
            raise Violation("value", "ones_: not all ones", region=name)
    elif name == "zeros_":
        if not np.all(t.data == 0):
            raise Violation("value", "zeros_: not all zeros", region=name)
    elif name == "xavier_uniform_":
        a_ = gain * math.sqrt(6.0 / (fan_in + fan_out))
        _stats_uniform(name, d, -a_, a_, ctx + f" fan_in={fan_in} fan_out={fan_out} a={a_}", dt)
        nt = fan_in != fan_out and gain != 1.0
    elif name == "xavier_normal_":
        sd_ = gain * math.sqrt(2.0 / (fan_in + fan_out))
        _stats_normal(name, d, 0.0, sd_, ctx + f" fan_in={fan_in} fan_out={fan_out} std={sd_}")
        nt = fan_in != fan_out and gain != 1.0
    elif name == "kaiming_uniform_":
        b_ = gain * math.sqrt(3.0 / fan)
        _stats_uniform(name, d, -b_, b_, ctx + f" fan={fan} gain={gain} bound={b_}", dt)
        nt = fan_in != fan_out and (mode != "fan_in" or nl != "leaky_relu" or a != 0)
    elif name == "kaiming_normal_":
        sd_ = gain / math.sqrt(fan)
        _stats_normal(name, d, 0.0, sd_, ctx + f" fan={fan} gain={gain} std={sd_}")
        nt = fan_in != fan_out and (mode != "fan_in" or nl != "leaky_relu" or a != 0)
    rec.nontrivial(nt)
    rec.tag(name, c["dtype"], "layout_" + lay)


# ---- structural: small shapes, rejection of bad arguments, gain table ---------------------------------
@st.composite
def struct_cases(draw):
    return {"which": draw(st.sampled_from(["bad_mode", "bad_nl", "rank1_fan", "gain"])),
            "init": draw(st.sampled_from(["kaiming_uniform_", "kaiming_normal_", "xavier_uniform_", "xavier_normal_"])),
            "nl": draw(st.sampled_from(list(GAINS) + ["leaky_relu"])), "a": draw(st.sampled_from([None, 0, 0.01, 0.2, 1, 2.5])),
            "bad": draw(st.sampled_from(["fan_avg", "FAN_IN", "", "swish", "gelu", "ReLU"])), "a_np": draw(st.booleans())}


def check_struct(c, rec):
    rec.nontrivial(True)
    rec.tag(c["which"])
    w = c["which"]
    t = Tensor(np.zeros((3, 4), dtype=np.float32))
    if w == "bad_mode" and c["init"].startswith("kaiming"):
        try:
            getattr(init, c["init"])(t, mode=c["bad"])
        except ValueError:
            return
        raise Violation("bad_argument_accepted", f"{c['init']}(mode={c['bad']!r}) did not raise ValueError")
    if w == "bad_nl" and c["init"].startswith("kaiming"):
        try:
            getattr(init, c["init"])(t, nonlinearity=c["bad"])
        except ValueError:
            return
        raise Violation("bad_argument_accepted", f"{c['init']}(nonlinearity={c['bad']!r}) did not raise ValueError")
    if w == "rank1_fan":
        try:
            getattr(init, c["init"])(Tensor(np.zeros(5, dtype=np.float32)))
        except ValueError:
            return
        raise Violation("bad_argument_accepted", f"{c['init']} accepted a rank-1 tensor (fan_in/fan_out undefined)")
    if w == "gain":
        a = c["a"]
        if a is not None and c.get("a_np") and isinstance(a, float):
            a = np.float64(a)
            rec.tag("numpy_float_slope")
        got = init.calculate_gain(c["nl"], a) if a is not None else init.calculate_gain(c["nl"])
        want = ref_gain(c["nl"], 0.01 if a is None else a)
        if abs(got - want) > 1e-12:
            raise Violation("gain", f"calculate_gain({c['nl']!r}, {a}) = {got}, documented {want}")


# ---- layers start from U(-1/sqrt(fan_in), 1/sqrt(fan_in)) ----------------------------------------
@st.composite
def layer_cases(draw):
    kind = draw(st.sampled_from(["linear", "conv1d", "conv2d"]))
    c = {"kind": kind, "seed": draw(st.integers(0, 2 ** 31 - 1)), "bias": draw(st.booleans())}
    if kind == "linear":
        c["i"], c["o"] = draw(st.sampled_from([16, 64, 100, 300])), draw(st.sampled_from([64, 128, 200]))
    elif kind == "conv1d":
        c["i"], c["o"], c["k"] = draw(st.sampled_from([4, 8, 16])), draw(st.sampled_from([64, 128])), draw(st.sampled_from([3, 5, 7]))
    else:
        c["i"], c["o"] = draw(st.sampled_from([4, 8, 16])), draw(st.sampled_from([32, 64]))
        c["k"] = [draw(st.sampled_from([1, 3, 5])), draw(st.sampled_from([3, 2, 5]))]
    if kind != "linear":
        # geometry options have no say in the initial distribution (fan_in = in_channels x kernel elements)
        c["stride"], c["dilation"] = draw(st.sampled_from([1, 1, 2])), draw(st.sampled_from([1, 1, 2, 3]))
        c["padding"] = draw(st.sampled_from([0, 0, 1, "valid"]))
    return c


def check_layer(c, rec):
    sg.manual_seed(c["seed"])
    if c["kind"] == "linear":
        m = nn.Linear(c["i"], c["o"], bias=c["bias"]); fan_in = c["i"]; wshape = (c["o"], c["i"])
    elif c["kind"] == "conv1d":
        m = nn.Conv1d(c["i"], c["o"], c["k"], c.get("stride", 1), c.get("padding", 0), c.get("dilation", 1), bias=c["bias"])
        fan_in = c["i"] * c["k"]; wshape = (c["o"], c["i"], c["k"])
    else:
        m = nn.Conv2d(c["i"], c["o"], tuple(c["k"]), c.get("stride", 1), c.get("padding", 0), c.get("dilation", 1), bias=c["bias"])
        fan_in = c["i"] * c["k"][0] * c["k"][1]
        wshape = (c["o"], c["i"], c["k"][0], c["k"][1])
    rec.nontrivial(c["kind"] != "linear")
    rec.tag(c["kind"])
    b = 1.0 / math.sqrt(fan_in)
    w = m.weight
    if tuple(w.shape) != wshape or w.dtype != np.float32 or not w.requires_grad:
        raise Violation("layer_param", f"{c['kind']} weight has shape {w.shape} dtype {w.dtype} requires_grad {w.requires_grad}")
    _stats_uniform(c["kind"] + ".weight", np.asarray(w.data, dtype=np.float64), -b, b, f"{c} fan_in={fan_in}")
    if c["bias"]:
        bb = np.asarray(m.bias.data, dtype=np.float64)
        if bb.shape != (c["o"],):
            raise Violation("layer_param", f"{c['kind']} bias shape {bb.shape}")
        if np.abs(bb).max() > b * (1 + 4 * float(np.finfo(np.float32).eps)):
            raise Violation("bound", f"{c['kind']} bias outside +-1/sqrt(fan_in)={b}: {np.abs(bb).max()}", region=c["kind"] + ".bias")
        if bb.size >= 32 and np.abs(bb).max() < b * (1 - 20.0 / bb.size) * 0.5:
            raise Violation("bound", f"{c['kind']} bias does not fill +-1/sqrt(fan_in)={b}: max |b| = {np.abs(bb).max()}; {c}", region=c["kind"] + ".bias")
        if abs(bb.mean()) > 6 * (b / math.sqrt(3)) / math.sqrt(bb.size):
            raise Violation("mean", f"{c['kind']} bias mean {bb.mean()} too far from 0", region=c["kind"] + ".bias")
    elif m.bias is not None:
        raise Violation("layer_param", "bias=False but a bias exists")


def subchecks():
    return [SubCheck("initialisers", check_init, init_cases, quick=500, thorough=8000, shards_quick=6, shards_thorough=16),
            SubCheck("structure", check_struct, struct_cases, quick=200, thorough=4000, shards_thorough=2),
            SubCheck("layers", check_layer, layer_cases, quick=300, thorough=4000, shards_quick=3, shards_thorough=8)]
