"""C09 - stability-critical ops stay finite and accurate for large-magnitude inputs."""
import numpy as np
from hypothesis import strategies as st
from scipy import special

from .. import gen
from ..core import SubCheck, Violation
from ..env import sg

nn = sg.nn
F = sg.nn.functional
Tensor = sg.Tensor

RULE = ("cases: float32/float64 inputs with log-uniform magnitudes in [1e-3,1e4] of either sign, salted with the "
        "exp-overflow thresholds (16.6, 17.3, 87.3, 88.7, 89, 103.9, 709.7, 1e4); logit rows of 2-6 classes with "
        "spreads up to 2e4; labels uniform; BCE targets in [0,1]; functional and module forms; any softmax dim.  "
        "Oracle: float64 stable formulas (scipy.special expit/log_softmax/logsumexp, logaddexp, expm1) and "
        "closed-form gradients; every output/gradient finite and within 8*eps32*max(1,|x|max) of the exact value.  "
        "non-trivial: |x|max > 88 (float32 exp overflow) or a logit gap > 28 (probability below 1e-12); distinct by "
        "hash of the case"
        " Round 4: class counts 127..129, 255..257, 32767..32769, 40000, 65535..65537, 70000 with labels at the top (cross_entropy functional/module, nll of log_softmax); Softmax/LogSoftmax modules used before on an input of another rank, negative dim spellings."
        " Round 7: BCE-with-logits targets that require grad, and targets outside [0, 1].")
ASSUMPTIONS = ["scipy.special stable implementations are exact to double rounding (spot-checked against mpmath in "
               "the selftest)",
               "single-precision accuracy is measured relative to max(1, |x|max) as the property states"]

EPS32 = float(np.finfo(np.float32).eps)
THRESH = [16.6, 17.3, 87.3, 88.7, 89.0, 103.9, 709.7, 1e4, 30.0, 50.0]
SELU_ALPHA = 1.6732632423543772848170429916717
SELU_SCALE = 1.0507009873554804934193349852946


@st.composite
def big_value(draw):
    kind = draw(st.integers(0, 3))
    if kind == 0:
        v = draw(st.sampled_from(THRESH)) * draw(st.sampled_from([1.0, 1.0, 0.999, 1.001]))
    else:
        e = draw(st.integers(-12, 16))            # 10**(e/4): 1e-3 .. 1e4
        v = 10.0 ** (e / 4.0) * draw(st.sampled_from([1.0, 1.5, 0.7]))
    v = min(v, 1e4)
    return float(np.float32(v if draw(st.booleans()) else -v))


@st.composite
def elementwise_cases(draw, op):
    n = draw(st.sampled_from([1, 2, 3, 5, 8, 8, 64]))
    if n <= 8:
        xs = [draw(big_value()) for _ in range(n)]
    else:
        seedv = [draw(big_value()) for _ in range(8)]
        xs = [seedv[(j * 5 + j // 8) % 8] * (1.0 if j % 3 else 0.5) for j in range(n)]
    c = {"op": op, "x": xs, "dtype": draw(st.sampled_from(["float32", "float64"])),
         "g": [draw(st.integers(-8, 8)) / 4.0 for _ in range(min(n, 8))] * (n // min(n, 8) + 1), "form": draw(st.sampled_from(["fn", "module"]))}
    if op == "bce_logits":
        # "any labels/targets": hard, soft, and soft targets outside [0, 1] (the logit form is defined for any real target)
        c["y"] = [draw(st.sampled_from([0.0, 1.0, 0.5, 0.25, 1.0, 0.0, 1.5, -0.5])) for _ in range(min(n, 8))] * (n // min(n, 8) + 1)
        c["reduction"] = draw(st.sampled_from(["none", "sum", "mean"]))
        c["y_requires_grad"] = draw(st.sampled_from([False, False, True]))      # learned soft labels
    return c


def _check_close(name, got, want, scale, ctx):
    got = np.asarray(got, dtype=np.float64)
    want = np.asarray(want, dtype=np.float64)
    if got.shape != want.shape:
        raise Violation("shape", f"{name}: shape {got.shape} != {want.shape}; {ctx}")
    if not np.all(np.isfinite(got)):
        raise Violation("nonfinite", f"{name}: non-finite value {got.ravel().tolist()} (exact: {want.ravel().tolist()}); {ctx}",
                        region=name.split()[0])
    # single-precision accuracy relative to the magnitude of the inputs - and of the exact result itself when
    # that is larger (a sum over many terms, the log of many classes): 8 ulp of whichever is bigger
    scale = max(scale, float(np.abs(want).max()) if want.size else 0.0)
    tol = 8 * EPS32 * scale
    err = np.abs(got - want)
    if err.max() > tol:
        i = int(err.argmax())
        raise Violation("inaccurate", f"{name}: |got-exact| = {err.ravel()[i]:.3e} > 8*eps32*{scale:.3g}: got "
                                      f"{got.ravel()[i]!r} exact {want.ravel()[i]!r}; {ctx}", region=name.split()[0])


def check_elementwise(c, rec):
    dt = np.dtype(c["dtype"])
    x = np.array(c["x"], dtype=dt)
    x64 = x.astype(np.float64)
    g = np.array(c["g"][:len(c["x"])], dtype=dt)
    g64 = g.astype(np.float64)
    xmax = float(np.abs(x64).max())
    scale = max(1.0, xmax)
    rec.nontrivial(xmax > 88)
    rec.tag(c["dtype"], "gt709" if xmax > 709 else ("gt88" if xmax > 88 else ("gt16" if xmax > 16 else "small")))
    op = c["op"]
    t = Tensor(x.copy(), requires_grad=True)
    ctx = f"op={op} x={c['x']} dtype={c['dtype']} form={c['form']}"
    if op == "sigmoid":
        out = nn.Sigmoid()(t) if c["form"] == "module" else F.sigmoid(t)
        s = special.expit(x64)
        want, wgrad = s, g64 * s * (1 - s)
    elif op == "tanh":
        out = nn.Tanh()(t) if c["form"] == "module" else F.tanh(t)
        th = np.tanh(x64)
        want, wgrad = th, g64 * (1 - th ** 2)
    elif op == "selu":
        out = nn.SELU()(t) if c["form"] == "module" else F.selu(t)
        want = SELU_SCALE * np.where(x64 > 0, x64, SELU_ALPHA * np.expm1(np.minimum(x64, 0)))
        wgrad = g64 * SELU_SCALE * np.where(x64 > 0, 1.0, SELU_ALPHA * np.exp(np.minimum(x64, 0)))
    elif op == "bce_logits":
        y = np.array(c["y"][:len(c["x"])], dtype=dt)
        y64 = y.astype(np.float64)
        yt = Tensor(y, requires_grad=bool(c.get("y_requires_grad")))
        if c.get("y_requires_grad"):
            rec.tag("target_requires_grad")
        if np.any((y64 < 0) | (y64 > 1)):
            rec.tag("target_outside_unit_interval")
        if c["form"] == "module":
            out = nn.BCEWithLogitsLoss(reduction=c["reduction"])(t, yt)
            red = c["reduction"]
        else:
            out = F.binary_cross_entropy_with_logits(t, yt)
            red = "none"
        per = np.maximum(x64, 0) - x64 * y64 + np.log1p(np.exp(-np.abs(x64)))
        dper = special.expit(x64) - y64
        if red == "none":
            want, wgrad = per, g64 * dper
        elif red == "sum":
            want, wgrad = np.asarray(per.sum()), g64[0] * dper
            g = g[:1].reshape(())
        else:
            want, wgrad = np.asarray(per.mean()), g64[0] * dper / per.size
            g = g[:1].reshape(())
        ctx += f" y={c['y']} reduction={red}"
        # single precision relative to the magnitude of what is summed: the per-element terms reach |x| * |y| (targets
        # outside [0, 1] exceed |x|), and a sum / mean over n terms is accurate relative to the sum of their magnitudes
        fscale = max(scale, float(np.abs(per).max()), float(np.abs(per).sum()) / (per.size if red == "mean" else 1) if red in ("sum", "mean") else 0.0)
    _check_close(f"{op} forward", out.data, want, fscale if op == "bce_logits" else scale, ctx)
    try:
        out.backward(Tensor(np.array(g, dtype=dt).reshape(out.shape)))
    except Exception as e:  # noqa: BLE001
        raise Violation("backward_raised", f"{op}: backward raised {type(e).__name__}: {e}; {ctx}")
    gscale = max(1.0, float(np.abs(g64).max()))
    _check_close(f"{op} gradient", t.grad.data, wgrad, gscale * scale, ctx)


# ---- softmax family -----------------------------------------------------------------------------
@st.composite
def logit_cases(draw, op):
    n = draw(st.sampled_from([1, 2, 3, 4, 4, 130, 260])); k = draw(st.sampled_from([2, 3, 4, 5, 6, 6, 40, 300]))
    if n > 4:
        k = min(k, 4)
    rows = []
    for _ in range(min(n, 5)):
        base = draw(big_value())
        spread = draw(st.sampled_from([0.0, 1.0, 20.0, 30.0, 90.0, 110.0, 800.0, 2e4]))
        if k <= 6:
            row = [base + spread * draw(st.integers(-4, 4)) / 4.0 for _ in range(k)]
        else:
            pat = [draw(st.integers(-4, 4)) / 4.0 for _ in range(7)]
            row = [base + spread * pat[(j * j + 3 * j) % 7] for j in range(k)]
        rows.append([float(np.float32(max(-1e4, min(1e4, v)))) for v in row])
    rows = [rows[(j * 3 + j // 5) % len(rows)] for j in range(n)]
    gpat = [[draw(st.integers(-8, 8)) / 4.0 for _ in range(min(k, 6))] * (k // min(k, 6) + 1) for _ in range(min(n, 5))]
    c = {"op": op, "x": rows, "dtype": draw(st.sampled_from(["float32", "float64"])),
         "g": [gpat[j % len(gpat)] for j in range(n)],
         "form": draw(st.sampled_from(["fn", "module"])), "transposed": draw(st.booleans()),
         "layout": draw(st.sampled_from(["C", "C", "F", "strided"])),
         "reused": draw(st.booleans()), "neg_dim": draw(st.booleans())}
    if op == "cross_entropy":
        lp = [draw(st.integers(0, k - 1)) for _ in range(min(n, 7))]
        c["labels"] = [lp[(j * j + j) % len(lp)] for j in range(n)]
        c["label_dtype"] = draw(st.sampled_from(["int64", "int8", "uint8", "int32"] if k <= 127 else ["int64", "int32"]))
        c["reduction"] = draw(st.sampled_from(["none", "sum", "mean"]))
    return c


def check_logits(c, rec):
    dt = np.dtype(c["dtype"])
    x = np.array(c["x"], dtype=dt)
    x64 = x.astype(np.float64)
    n, k = x.shape
    g64 = np.array([row[:k] for row in c["g"]], dtype=np.float64)
    xmax = float(np.abs(x64).max())
    gap = float((x64.max(axis=1) - x64.min(axis=1)).max())
    scale = max(1.0, xmax)
    rec.nontrivial(xmax > 88 or gap > 28)
    rec.tag(c["dtype"], "gap>28" if gap > 28 else "gap<=28", "gap>104" if gap > 104 else "gap<=104")
    op = c["op"]
    ctx = f"op={op} x={c['x']} dtype={c['dtype']} form={c['form']}"
    sm = special.softmax(x64, axis=1)
    lsm = special.log_softmax(x64, axis=1)
    if op in ("softmax", "log_softmax"):
        transposed = c["transposed"]
        from ..ops import _layout
        data = _layout(x.T.copy() if transposed else x.copy(), c.get("layout", "C"))
        dim = 0 if transposed else draw_dim(c)
        t = Tensor(data, requires_grad=True)
        if c["form"] == "module":
            dim = dim - 2 if (c.get("neg_dim") and dim >= 0) else dim      # the same axis of a 2-d input, spelled negatively
            m = (nn.Softmax if op == "softmax" else nn.LogSoftmax)(dim)
            if c.get("reused"):
                from ..nnops import used_before
                used_before(m, t.shape, t.dtype)           # the same layer object saw a higher-rank input before
                rec.tag("module_used_before_on_another_rank")
            out = m(t)
        else:
            out = getattr(F, op)(t, dim - 2 if (c.get("neg_dim") and dim >= 0) else dim)
        if op == "softmax":
            want = sm
            wgrad = sm * (g64 - (g64 * sm).sum(axis=1, keepdims=True))
        else:
            want = lsm
            wgrad = g64 - sm * g64.sum(axis=1, keepdims=True)
        g = g64.astype(dt)
        if transposed:
            want, wgrad, g = want.T, wgrad.T, g.T.copy()
        _check_close(f"{op} forward", out.data, want, scale, ctx + f" dim={dim}")
        try:
            out.backward(Tensor(g))
        except Exception as e:  # noqa: BLE001
            raise Violation("backward_raised", f"{op}: backward raised {type(e).__name__}: {e}; {ctx}")
        # the VJP sums k terms g_j s_j (or g_j): single precision relative to the magnitude of that sum
        gs = max(1.0, float(np.abs(g64).sum(axis=1).max()))
        _check_close(f"{op} gradient", t.grad.data, wgrad, gs * scale, ctx + f" dim={dim} g={c['g']}")
        return
    # cross entropy
    labels = np.array(c["labels"])
    from ..ops import _layout
    t = Tensor(_layout(x.copy(), c.get("layout", "C")), requires_grad=True)
    rec.tag("layout_" + c.get("layout", "C"))
    lab = Tensor(labels.astype(c.get("label_dtype", "int64")))
    if c["form"] == "module":
        out = nn.CrossEntropyLoss(reduction=c["reduction"])(t, lab)
        red = c["reduction"]
    else:
        out = F.cross_entropy(t, lab)
        red = "none"
    per = -lsm[np.arange(n), labels]
    onehot = np.zeros((n, k)); onehot[np.arange(n), labels] = 1
    dper = sm - onehot
    gv = g64[:, 0]
    if red == "none":
        want, wgrad, g = per, gv[:, None] * dper, gv
    elif red == "sum":
        want, wgrad, g = np.asarray(per.sum()), gv[0] * dper, np.asarray(gv[0])
    else:
        want, wgrad, g = np.asarray(per.mean()), gv[0] * dper / n, np.asarray(gv[0])
    ctx += f" labels={c['labels']} reduction={red}"
    _check_close("cross_entropy forward", np.asarray(out.data).reshape(np.shape(want)), want, scale * (n if red == "sum" else 1), ctx)
    passes = 2 if len(c["x"]) % 3 == 0 else 1          # every third case differentiates the same result twice
    try:
        for _ in range(passes):
            out.backward(Tensor(np.asarray(g, dtype=dt).reshape(out.shape)))
    except Exception as e:  # noqa: BLE001
        raise Violation("backward_raised", f"cross_entropy: backward raised {type(e).__name__}: {e}; {ctx}")
    wgrad = passes * wgrad
    if passes == 2:
        rec.tag("backward_twice")
    _check_close("cross_entropy gradient" + (" (accumulated over two backward calls)" if passes == 2 else ""), t.grad.data, wgrad, max(1.0, float(np.abs(gv).max())) * scale, ctx)


def draw_dim(c):
    # rows are normalised along the last dim; use -1 or 1 deterministically from the case
    return -1 if len(c["x"]) % 2 else 1


def _guard(fn):
    def wrapped(c, rec):
        try:
            return fn(c, rec)
        except Violation:
            raise
        except (ValueError, TypeError, IndexError, RuntimeError, FloatingPointError, ZeroDivisionError, OverflowError) as e:
            import traceback
            tb = traceback.extract_tb(e.__traceback__)
            inside = any("/synapgrad/" in fr.filename for fr in tb)
            if not inside:
                raise                       # a harness problem, not the library
            raise Violation("raised", f"{c['op']} raised {type(e).__name__}: {e} for finite inputs in the promised domain "
                                      f"(shape {np.shape(c['x'])}, dtype {c['dtype']})", region=c["op"])
    return wrapped


# ---- very many classes: "any labels" includes class indices beyond every narrow integer type ---------------
@st.composite
def many_class_cases(draw):
    K = draw(st.sampled_from([127, 128, 129, 255, 256, 257, 32767, 32768, 32769, 40000, 65535, 65536, 65537, 70000]))
    n = draw(st.integers(1, 3))
    return {"K": K, "n": n, "base": draw(big_value()), "spread": draw(st.sampled_from([0.0, 1.0, 30.0, 800.0, 2e4])),
            "pat": [draw(st.integers(-4, 4)) / 4.0 for _ in range(7)],
            "labels": [draw(st.sampled_from([K - 1, K - 2, K // 2, 0, min(K - 1, 128), min(K - 1, 256), min(K - 1, 32768), min(K - 1, 65536)]))
                       for _ in range(n)],
            "label_dtype": draw(st.sampled_from(["int64", "int64", "int32"])), "dtype": draw(st.sampled_from(["float32", "float64"])),
            "op": draw(st.sampled_from(["cross_entropy", "cross_entropy_module", "nll_of_log_softmax"])),
            "reduction": draw(st.sampled_from(["none", "sum", "mean"])), "g": draw(st.integers(-8, 8)) / 4.0}


def check_many_classes(c, rec):
    dt = np.dtype(c["dtype"])
    K, n = c["K"], c["n"]
    j = np.arange(K)
    row = np.clip(c["base"] + c["spread"] * np.array(c["pat"])[(j * j + 3 * j) % 7], -1e4, 1e4)
    x = np.stack([np.roll(row, 3 * i) for i in range(n)]).astype(np.float32).astype(dt)
    x64 = x.astype(np.float64)
    labels = np.array(c["labels"])
    rec.nontrivial(K > 32767)
    rec.tag(f"K={K}", c["op"])
    lsm = special.log_softmax(x64, axis=1)
    sm = np.exp(lsm)
    per = -lsm[np.arange(n), labels]
    onehot = np.zeros((n, K)); onehot[np.arange(n), labels] = 1
    t = Tensor(x.copy(), requires_grad=True)
    lab = Tensor(labels.astype(c["label_dtype"]))
    ctx = f"classes={K} labels={c['labels']} label dtype={c['label_dtype']} op={c['op']} reduction={c['reduction']} dtype={dt}"
    red = "none"
    if c["op"] == "cross_entropy":
        out = F.cross_entropy(t, lab)
    elif c["op"] == "cross_entropy_module":
        red = c["reduction"]
        out = nn.CrossEntropyLoss(reduction=red)(t, lab)
    else:
        out = F.nll_loss(F.log_softmax(t, 1), lab)
    want = per if red == "none" else (np.asarray(per.sum()) if red == "sum" else np.asarray(per.mean()))
    scale = max(1.0, float(np.abs(x64).max()))
    _check_close(f"{c['op']} forward", np.asarray(out.data).reshape(np.shape(want)), want, scale * (n if red == "sum" else 1), ctx)
    gv = np.full(out.shape, c["g"], dtype=dt)
    try:
        out.backward(Tensor(gv))
    except Exception as e:  # noqa: BLE001
        raise Violation("backward_raised", f"{c['op']}: backward raised {type(e).__name__}: {e}; {ctx}")
    wgrad = c["g"] * (sm - onehot) / (n if red == "mean" else 1)
    _check_close(f"{c['op']} gradient", t.grad.data, wgrad, max(1.0, abs(c["g"])) * scale, ctx)


def subchecks():
    subs = []
    subs.append(SubCheck("many_classes", _guard(check_many_classes), many_class_cases, quick=60, thorough=1200, shards_quick=4, shards_thorough=8))
    for op in ("sigmoid", "tanh", "selu", "bce_logits"):
        subs.append(SubCheck(op, _guard(check_elementwise), (lambda op=op: elementwise_cases(op)),
                             quick=1500, thorough=20000, shards_quick=2, shards_thorough=4))
    for op in ("softmax", "log_softmax", "cross_entropy"):
        subs.append(SubCheck(op, _guard(check_logits), (lambda op=op: logit_cases(op)),
                             quick=1500, thorough=20000, shards_quick=2, shards_thorough=4))
    return subs
