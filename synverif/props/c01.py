"""C01 - backward of every tensor op yields the exact vector-Jacobian product."""
import numpy as np
from hypothesis import strategies as st

from .. import gen, gradcheck, ops
from ..core import SubCheck, Violation
from ..env import sg

Tensor = sg.Tensor

RULE = ("cases: tensor op x operand shapes (rank 0-4, size-1 dims, every broadcasting pattern, same tensor twice) "
        "x legal argument values x grid operand values in the op's domain (kinks excluded by construction) x "
        "{float32,float64} x requires-grad subsets x arbitrary non-uniform upstream gradient g.  Oracle: central "
        "finite differences (float64, h=1e-6) of synapgrad's own forward contracted with g; tie sub-checks test "
        "membership in the subdifferential.  non-trivial: output has >=2 elements AND g is not constant AND the "
        "per-op predicate holds (broadcasting / non-default dim or index argument / 0-d or size-1 operand ...); "
        "distinct by hash of the whole case"
        " Also: memory layouts (C/F/strided/reversed views), nn.Parameter operands, operand magnitudes 2^-60..2^40, occasional sides up to 32, index sequences spelled as list/tuple/ndarray, a second backward through the same graph, caller-mutated operand lists, near-ties of max/min, and an enumerated grid of every dim argument for ranks <= 3."
        " Round 4: operands with a zero-length dimension (16 op kinds; gradient = the only possible value), 0-d tensors with dim 0/-1, NumPy-integer dims, dim=(), one tensor in several operand roles of matmul/addmm, addmm with batched factors and an x1 larger than the product, bare (non-tuple) index keys."
        " Round 5: a second backward(g) must add exactly the first; (result*3).backward(result.grad) must scale every operand gradient accordingly."
        " Round 7: a refused backward call (upstream gradient of the wrong shape) before the valid one.")
ASSUMPTIONS = ["finite-difference truncation+rounding error <= 1e-8 relative on the value grids; tolerance "
               "1e-5*scale (float64) / 2e-3*scale (float32)",
               "forward rejected -> nothing asserted here (C05 owns acceptance)"]


# ---- ties of max / min: any valid subgradient ---------------------------------------------------
@st.composite
def tie_cases(draw):
    shp = draw(gen.shapes(1, 3, 40))
    nd = len(shp)
    dim = draw(st.one_of(st.none(), st.integers(-nd, nd - 1)))
    v = draw(gen.grid(shp, -2, 2, 1.0))     # few distinct values -> many ties
    return {"shape": shp, "v": v, "dim": dim, "keepdims": draw(st.booleans()),
            "which": draw(st.sampled_from(["max", "min"])), "g": draw(gen.upstream()),
            "dtype": draw(gen.DTYPES)}


def check_ties(c, rec):
    dt = np.dtype(c["dtype"])
    x = gen.arr(c["v"], c["shape"], dt)
    t = Tensor(x.copy(), requires_grad=True)
    fn = getattr(t, c["which"])
    try:
        out = fn(c["dim"], c["keepdims"])
    except Exception:  # noqa: BLE001
        rec.skip = "forward_rejected"
        return
    g = gen.cyc(c["g"], out.shape, dt)
    try:
        out.backward(Tensor(g.copy()))
    except Exception as e:  # noqa: BLE001
        raise Violation("backward_raised", f"{c['which']} backward raised {type(e).__name__}: {e}; {c}")
    grad = np.asarray(t.grad.data, dtype=np.float64)
    if grad.shape != x.shape:
        raise Violation("grad_shape", f"grad shape {grad.shape} != {x.shape}; {c}")
    x64 = x.astype(np.float64)
    if c["dim"] is None:
        ext = x64.max() if c["which"] == "max" else x64.min()
        groups = [(np.ones(x.shape, bool), float(np.asarray(g).reshape(-1)[0]), ext)]
    else:
        d = c["dim"] % x.ndim
        ext_all = x64.max(axis=d, keepdims=True) if c["which"] == "max" else x64.min(axis=d, keepdims=True)
        gk = np.asarray(g, dtype=np.float64).reshape(ext_all.shape)
        groups = []
        for idx in np.ndindex(*ext_all.shape):
            m = np.zeros(x.shape, bool)
            sl = list(idx)
            sl[d] = slice(None)
            m[tuple(sl)] = True
            groups.append((m, float(gk[idx]), float(ext_all[idx])))
    ties = False
    for m, gv, ext in groups:
        on = m & (x64 == ext)
        off = m & ~on
        if on.sum() > 1:
            ties = True
        if np.any(grad[off] != 0):
            raise Violation("subgradient", f"{c['which']}: non-zero gradient off the arg-extremal set; grad={grad.tolist()} x={x64.tolist()} dim={c['dim']}")
        vals = grad[on]
        tol = 1e-6 * max(1.0, abs(gv))
        if abs(vals.sum() - gv) > tol or np.any(vals * np.sign(gv) < -tol) or np.any(np.abs(vals) > abs(gv) + tol):
            raise Violation("subgradient", f"{c['which']}: gradient on the tie set {vals.tolist()} is not a convex "
                                           f"split of g={gv}; x={x64.tolist()} dim={c['dim']}")
    rec.nontrivial(ties and x.size >= 2)
    if ties:
        rec.tag("has_ties")


# ---- near ties: values that differ by a few units in the last places are NOT ties ----------------------------------
@st.composite
def near_tie_cases(draw):
    shp = draw(gen.shapes(1, 3, 24))
    nd = len(shp)
    n = int(np.prod(shp))
    return {"shape": shp, "base": draw(st.sampled_from([1.0, -1.0, 3.5, 1024.0, 0.015625])),
            "perm": draw(st.permutations(list(range(n)))), "gap": draw(st.sampled_from([1, 2, 16, 4096, 2 ** 20])),
            "dim": draw(st.one_of(st.none(), st.integers(-nd, nd - 1))), "keepdims": draw(st.booleans()),
            "which": draw(st.sampled_from(["max", "min"])), "g": draw(gen.upstream()), "dtype": draw(gen.DTYPES)}


def check_near_ties(c, rec):
    dt = np.dtype(c["dtype"])
    n = len(c["perm"])
    ulp = float(np.spacing(np.asarray(abs(c["base"]), dtype=dt)))
    x = (np.asarray(c["base"], dtype=np.float64) + np.array(c["perm"], dtype=np.float64) * c["gap"] * ulp).astype(dt).reshape(c["shape"])
    if np.unique(x).size != x.size:
        rec.skip = "values_collapsed"
        return
    rec.nontrivial(n >= 2)
    t = Tensor(x.copy(), requires_grad=True)
    out = getattr(t, c["which"])(c["dim"], c["keepdims"])
    g = gen.cyc(c["g"], out.shape, dt)
    out.backward(Tensor(g.copy()))
    grad = np.asarray(t.grad.data, dtype=np.float64)
    x64 = x.astype(np.float64)
    want = np.zeros(x.shape)
    if c["dim"] is None:
        idx = np.unravel_index(int(x64.argmax() if c["which"] == "max" else x64.argmin()), x.shape)
        want[idx] = float(np.asarray(g).reshape(-1)[0])
    else:
        d = c["dim"] % x.ndim
        am = np.expand_dims(x64.argmax(axis=d) if c["which"] == "max" else x64.argmin(axis=d), d)
        np.put_along_axis(want, am, np.asarray(g, dtype=np.float64).reshape(am.shape), axis=d)
    if grad.shape != want.shape or not np.array_equal(grad, want):
        raise Violation("near_tie", f"{c['which']} over values {c['gap']} ulp apart (no tie): gradient {grad.ravel().tolist()} is not g at "
                                    f"the unique extremum {want.ravel().tolist()}; x={x64.ravel().tolist()} dim={c['dim']} dtype={c['dtype']}")


# ---- enumerated grid of dim arguments (shared with C05), differentiated ------------------------------
def enum_dims_grad(tier, shard, nshards):
    from .c05 import enum_dims
    for c in enum_dims("quick", shard, nshards):          # ranks <= 3 in both tiers (FD cost)
        c["rg"] = [True] * len(c["xs"])
        c["g"] = [((7 * j) % 11 - 5) / 4.0 for j in range(24)]
        yield c


def check_dim_grid(case, rec):
    gradcheck.check_grad(ops.BY_NAME[case["op"]], case, rec)


# ---- one tensor in several operand roles of matmul / addmm ------------------------------------------------
@st.composite
def same_roles_cases(draw):
    n = draw(st.integers(1, 4))
    return {"n": n, "v": draw(gen.grid([n, n], -16, 16)), "kind": draw(st.sampled_from(["matmul", "matmul_op", "addmm_xxx", "addmm_xxy", "addmm_yxx", "addmm_xyx"])),
            "w": draw(gen.grid([n, n], -16, 16)), "g": draw(gen.upstream()), "dtype": draw(gen.DTYPES)}


def check_same_roles(c, rec):
    from .. import fd
    dt = np.dtype(c["dtype"])
    n = c["n"]
    x = gen.arr(c["v"], [n, n], dt)
    y = gen.arr(c["w"], [n, n], dt)

    def forward(a, b):
        k = c["kind"]
        if k == "matmul":
            return sg.matmul(a, a)
        if k == "matmul_op":
            return a @ a
        r = {"x": a, "y": b}
        return sg.addmm(r[k[6]], r[k[7]], r[k[8]])

    t, u = Tensor(x.copy(), requires_grad=True), Tensor(y.copy(), requires_grad=True)
    out = forward(t, u)
    rec.nontrivial(n >= 2)
    rec.tag(c["kind"])
    g = gen.cyc(c["g"], out.shape, dt)
    try:
        out.backward(Tensor(g.copy()))
    except Exception as e:  # noqa: BLE001
        raise Violation("backward_raised", f"{c['kind']}: backward raised {type(e).__name__}: {e}; {c}", region="same_roles")
    want = fd.fd_vjp(lambda xs: np.asarray(forward(Tensor(xs[0].copy()), Tensor(xs[1].copy())).data),
                     [x.astype(np.float64), y.astype(np.float64)], g, [0, 1])
    for i, tt in ((0, t), (1, u)):
        if tt.grad is None:
            if np.abs(want[i]).max(initial=0.0) > 0:
                raise Violation("grad_missing", f"{c['kind']}: operand {'xy'[i]} has no gradient; {c}", region="same_roles")
            continue
        ok, err, sc = fd.close(tt.grad.data, want[i], dt)
        if not ok:
            raise Violation("grad_value", f"{c['kind']} (one tensor in several operand roles): gradient of {'xy'[i]} differs from the "
                                          f"finite-difference VJP by {err:.3e} (scale {sc:.3g}); {c}", region="same_roles")


# ---- operands with a zero-length dimension ---------------------------------------------------------
def check_zero_size(c, rec):
    from .. import zerosize
    try:
        out, ref, ops_ = zerosize.run(c)
    except Exception:  # noqa: BLE001   (C05 owns acceptance)
        rec.skip = "forward_rejected"
        return
    rec.tag(c["kind"])
    rec.nontrivial(True)
    if not out.requires_grad:
        rec.skip = "no_grad_result"
        return
    g = gen.cyc(c["g"], out.shape, np.dtype(c["dtype"]))
    try:
        out.backward(Tensor(g.copy()))
    except Exception as e:  # noqa: BLE001
        raise Violation("backward_raised", f"forward accepted operands {[list(t.shape) for t in ops_]} ({c['kind']}, result shape "
                                           f"{list(out.shape)}) but backward raised {type(e).__name__}: {e}; {c}", region="zero_size")
    for i, (t, e) in enumerate(zip(ops_, zerosize.expected_grads(c, out, ops_, g))):
        if e is None:
            continue
        if t.grad is None:
            raise Violation("grad_missing", f"operand {i} requires grad but has none after backward; {c}", region="zero_size")
        got = np.asarray(t.grad.data, dtype=np.float64)
        if got.shape != e.shape or (got.size and np.abs(got - e).max() > 1e-6 * max(1.0, np.abs(e).max())):
            raise Violation("grad_value", f"operand {i} of shape {list(t.shape)}: gradient {got.tolist()} (shape {got.shape}), "
                                          f"expected {e.tolist()}; {c}", region="zero_size")


def subchecks():
    subs = []
    for op in ops.OPS:
        subs.append(SubCheck(op.name, gradcheck.make_check(op), (lambda op=op: ops.full_case(op)),
                             quick=400, thorough=3000, shards_quick=2, shards_thorough=4))
    subs.append(SubCheck("maxmin_ties", check_ties, tie_cases, quick=300, thorough=4000))
    subs.append(SubCheck("maxmin_near_ties", check_near_ties, near_tie_cases, quick=300, thorough=4000))
    from .. import zerosize
    subs.append(SubCheck("zero_size", check_zero_size, zerosize.cases, quick=500, thorough=6000))
    subs.append(SubCheck("same_tensor_roles", check_same_roles, same_roles_cases, quick=300, thorough=4000))
    subs.append(SubCheck("dim_grid", check_dim_grid, None, enum=enum_dims_grad, exhaustive=True, shards_quick=8, shards_thorough=16))
    return subs
