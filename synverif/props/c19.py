"""C19 - results are reproducible under manual_seed and independent of hash order."""
import json
import os
import subprocess
import sys

from hypothesis import strategies as st

from .. import env
from ..c19_prog import run_program
from ..core import HarnessError, SubCheck, Violation

RULE = ("programs: sequences over the random-consuming APIs (rand/randn/normal/randint, every nn.init filler, "
        "Linear/Conv1d/Conv2d/BatchNorm constructors, Dropout forward+backward in training, split_dataset shuffle, "
        "2-4 optimisation steps of a small MLP (optional Dropout/BatchNorm) or CNN with SGD-momentum or Adam) plus a "
        "fixed-data forward/backward through a DAG with fan-out; seed drawn.  Oracle: SHA-256 digest over bytes, "
        "shapes and dtypes of every produced tensor/gradient/parameter must be identical (1) for two in-process "
        "executions after manual_seed(s), (2) across fresh subprocesses with PYTHONHASHSEED in {0,1,4242,random} and "
        "drawn junk allocations / unrelated imports before the library is imported, (3) for the fixed-data part "
        "across 1..5 repetitions inside one process; different seeds must give different digests for programs "
        "that draw.  non-trivial: >=2 different random APIs and a backward through fan-out (the fixed part or a "
        "training step); distinct by hash of the program"
        " Also: every program compared across fresh processes ends with a sweep over all random-consuming entry points (incl. a zero-width Linear); freed memory is poisoned with a run-specific value before every run so that uninitialised buffers differ between runs."
        " Round 5: the fixed DAG contains a batch-norm node and is differentiated twice (gradients cleared in between) with identical digests."
        " Round 6: Adam/AdamW with eps=0 and entries whose gradient is always exactly zero.")
ASSUMPTIONS = ["BLAS threads pinned to 1 in every process (the property is about synapgrad, not OpenBLAS scheduling)",
               "'all allocation layouts' is sampled (hash seeds x allocation perturbations), not enumerated"]

INITS = ["uniform_", "normal_", "xavier_uniform_", "xavier_normal_", "kaiming_uniform_", "kaiming_normal_", "constant_"]


# one call of every random-consuming entry point, appended to each program that is compared across fresh processes
TAIL = [{"k": "init_all", "a": 0.2}, {"k": "adam_eps0"},
        {"k": "layer", "kind": "linear", "i": 3, "o": 2}, {"k": "layer", "kind": "linear", "i": 0, "o": 2},
        {"k": "layer", "kind": "conv1d", "i": 2, "o": 3},
        {"k": "layer", "kind": "conv2d", "i": 2, "o": 3}, {"k": "layer", "kind": "bn", "i": 1, "o": 3, "affine": True, "momentum": 0.1},
        {"k": "dropout", "p": 0.5, "shape": [3, 4]}, {"k": "split", "n": 11, "test": 0.3, "val": 0.25},
        {"k": "apply_init", "n": 5, "fn": "kaiming_normal_"}, {"k": "apply_init", "n": 4, "fn": "xavier_uniform_"},
        {"k": "train", "model": "mlp", "act": "tanh", "dropout": True, "bn": True, "bn_affine": True, "opt": "adam", "steps": 2},
        {"k": "train", "model": "cnn", "act": "relu", "dropout": False, "bn": False, "bn_affine": False, "opt": "sgd", "steps": 2},
        {"k": "rand", "shape": [2, 3]}, {"k": "randn", "shape": [3]}, {"k": "normal", "shape": [3], "loc": 2.0, "scale": 0.5},
        {"k": "randint", "shape": [2, 2, 2], "low": 0, "high": 7}]


@st.composite
def programs(draw, max_len=7):
    steps = []
    for _ in range(draw(st.integers(2, max_len))):
        k = draw(st.sampled_from(["rand", "randn", "normal", "randint", "init", "layer", "dropout", "split", "train", "train", "fixed",
                                  "apply_init", "init_all", "adam_eps0"]))
        s = {"k": k}
        if k == "init_all":
            s["a"] = draw(st.sampled_from([0, 0.2, 1.0]))
        if k in ("rand", "randn", "normal", "randint"):
            s["shape"] = draw(st.sampled_from([[3], [2, 3], [2, 2, 2], [1]]))
            if k == "normal":
                s["loc"], s["scale"] = draw(st.sampled_from([0.0, 2.0])), draw(st.sampled_from([1.0, 0.5]))
            if k == "randint":
                s["low"], s["high"] = 0, draw(st.integers(2, 9))
        elif k == "init":
            s["fn"] = draw(st.sampled_from(INITS)); s["shape"] = draw(st.sampled_from([[3, 4], [2, 3, 2]]))
        elif k == "layer":
            s["kind"] = draw(st.sampled_from(["linear", "conv1d", "conv2d", "bn", "bn", "bn2d"])); s["i"] = draw(st.integers(1, 3)); s["o"] = draw(st.integers(1, 4))
            if s["kind"] == "linear" and draw(st.integers(0, 5)) == 0:
                s["i"] = 0          # a zero-width layer is legal: its parameters must still be fully determined
            if s["kind"].startswith("bn"):
                s["affine"] = draw(st.booleans()); s["momentum"] = draw(st.sampled_from([0.1, None, 0.5]))
        elif k == "apply_init":
            s["n"] = draw(st.integers(3, 7)); s["fn"] = draw(st.sampled_from(["xavier_uniform_", "kaiming_normal_", "normal_"]))
        elif k == "dropout":
            s["p"] = draw(st.sampled_from([0.2, 0.5, 0.8])); s["shape"] = draw(st.sampled_from([[6], [3, 4]]))
        elif k == "split":
            s["n"] = draw(st.integers(3, 20)); s["test"] = draw(st.sampled_from([0.2, 0.3, 0.5]))
            if draw(st.booleans()):
                s["val"] = draw(st.sampled_from([0.25, 0.5]))
        elif k == "train":
            s.update(model=draw(st.sampled_from(["mlp", "mlp", "cnn"])), act=draw(st.sampled_from(["tanh", "relu"])),
                     dropout=draw(st.booleans()), bn=draw(st.booleans()), bn_affine=draw(st.booleans()), opt=draw(st.sampled_from(["sgd", "adam"])),
                     steps=draw(st.integers(2, 4)))
        else:
            s["x"] = [draw(st.integers(-8, 8)) / 4.0 for _ in range(6)]
            s["w"] = [draw(st.integers(-8, 8)) / 4.0 for _ in range(6)]
        steps.append(s)
    return {"prog": steps, "seed": draw(st.integers(0, 2 ** 32 - 1)), "seed2": draw(st.integers(0, 2 ** 32 - 1)),
            "reps": draw(st.integers(2, 5)),
            "junk": [draw(st.integers(0, 4000)) for _ in range(3)],
            "imports": draw(st.lists(st.sampled_from(["decimal", "fractions", "sqlite3", "xml.dom.minidom", "email", "csv",
                                                      "unittest", "asyncio"]), max_size=4)),
            "hashseeds": draw(st.permutations(["0", "1", "4242", "random"]))}


def _nt(c):
    kinds = {s["k"] for s in c["prog"]}
    rnd = kinds & {"rand", "randn", "normal", "randint", "init", "layer", "dropout", "split", "train", "apply_init", "init_all"}
    return len(rnd) >= 2 and bool(kinds & {"fixed", "train"})


def check_inprocess(c, rec):
    rec.nontrivial(_nt(c))
    for s in c["prog"]:
        rec.tag(s["k"])
    # (freed memory is filled with a different value before each run: uninitialised buffers cannot hide behind
    #  a recycled block that happens to hold the previous run's values)
    d1, f1 = run_program(c["prog"], c["seed"], poison=1.5)
    d2, f2 = run_program(c["prog"], c["seed"], poison=-7.25)
    if d1 != d2:
        raise Violation("same_seed_differs", f"two executions after manual_seed({c['seed']}) differ; program={c['prog']}")
    d3, f3 = run_program(c["prog"], c["seed"], repeat_fixed=c["reps"])
    for step_digests, first in zip(f3, f1):
        if len(set(step_digests)) != 1:
            raise Violation("repetition_dependence", f"fixed-data forward/backward differs between repetitions: "
                                                     f"{[x[:8] for x in step_digests]}; program={c['prog']}")
        if first[0] != step_digests[0]:
            raise Violation("repetition_dependence", "fixed-data result differs between runs")
    # only steps that draw continuous values carry enough entropy for "different seeds -> different digests"
    # (a few small integers, a short permutation or a small dropout mask coincide with noticeable probability)
    draws = any(s["k"] in ("rand", "randn", "normal", "train", "apply_init", "init_all")
                or (s["k"] == "init" and s.get("fn") != "constant_")
                or (s["k"] == "layer" and not s["kind"].startswith("bn") and s.get("i", 1) > 0) for s in c["prog"])
    # (a zero-width Linear draws U(-0, 0): nothing that could differ between seeds)
    if draws and c["seed"] != c["seed2"]:
        d4, _ = run_program(c["prog"], c["seed2"])
        if d4 == d1:
            raise Violation("seed_ignored", f"seeds {c['seed']} and {c['seed2']} give the same digest although the program "
                                            f"draws random numbers; program={c['prog']}")


def _child(c, hashseed, junk, drop):
    envv = dict(os.environ)
    envv.update({"PYTHONHASHSEED": hashseed, "OMP_NUM_THREADS": "1", "OPENBLAS_NUM_THREADS": "1", "MKL_NUM_THREADS": "1",
                 "MPLBACKEND": "Agg", "VERIF_REPO": env.REPO, "PYTHONPATH": env.VERIF})
    req = {"prog": c["prog"], "seed": c["seed"], "junk": junk, "imports": c["imports"], "drop_junk": drop}
    p = subprocess.run([sys.executable, "-m", "synverif.c19_child"], input=json.dumps(req), capture_output=True, text=True,
                       env=envv, cwd=env.VERIF, timeout=300)
    for line in p.stdout.splitlines():
        if line.startswith("DIGEST "):
            return line.split()[1]
    raise HarnessError(f"child failed (exit {p.returncode}): {p.stderr[-800:]}")


def check_subprocess(c, rec):
    # process-level effects (string-hash order, allocation addresses) can hide in any code path: every program run
    # across fresh processes ends with a sweep over all initialisers in all argument spellings
    have = {s["k"] for s in c["prog"]}
    c = dict(c, prog=c["prog"] + [s for s in TAIL if s["k"] not in have or s["k"] in ("layer", "train")])
    rec.nontrivial(_nt(c))
    d0, _ = run_program(c["prog"], c["seed"])
    n = 3
    for i in range(n):
        hs = c["hashseeds"][i % len(c["hashseeds"])]
        d = _child(c, hs, c["junk"][i % len(c["junk"])], bool(i % 2))
        rec.tag("hashseed_" + hs)
        if d != d0:
            raise Violation("cross_process_differs", f"a fresh process (PYTHONHASHSEED={hs}, {c['junk'][i % 3]} junk allocations, "
                                                     f"imports {c['imports']}) produced a different digest than this process "
                                                     f"for seed {c['seed']}; program={c['prog']}")


def subchecks():
    return [SubCheck("in_process", check_inprocess, programs, quick=40, thorough=1200, shards_quick=4, shards_thorough=16),
            SubCheck("fresh_processes", check_subprocess, lambda: programs(5), quick=2, thorough=30, shards_quick=4,
                     shards_thorough=16)]
