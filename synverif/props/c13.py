"""C13 - Dropout and BatchNorm honour train/eval mode over any call history."""
import numpy as np
from hypothesis import strategies as st

from .. import gen
from ..core import SubCheck, Violation
from ..env import sg

Tensor = sg.Tensor
nn = sg.nn

RULE = ("histories: BatchNorm1d/2d with drawn constructor options (momentum incl. None and 1.0, affine, "
        "track_running_stats, eps, dtype) x command lists of train()/eval()/forward(batch of any size, rank 2/3/4)/"
        "forward+backward/load arbitrary running statistics; Dropout with p in [0,1] incl. 0 and 1 x "
        "train()/eval()/forward(+backward) on small tensors (exact mask algebra) and large ones (statistics, seeds "
        "drawn by Hypothesis).  Oracle: float64 reference BatchNorm state machine (batch statistics with biased "
        "variance in training, running statistics in eval, unbiased running variance updated once per training "
        "forward by the exponential / cumulative rule, counter incremented once) compared after every call; eval "
        "calls leave the state byte-identical and are deterministic; Dropout outputs are 0 or x/(1-p), backward "
        "uses the same mask, zero fraction / lag-1 / cross-call correlations within 6 sigma.  non-trivial: a mode "
        "switch between two forwards and >=2 training forwards (BN); a training forward with 0<p<1 followed by "
        "backward (Dropout); distinct by hash of the history")
ASSUMPTIONS = ["statistical assertions use 6-sigma bounds with library seeds drawn by Hypothesis (deterministic per VERIF_SEED)",
               "BatchNorm tolerance 2e-4*scale (float32) / 1e-9*scale (float64)"]


# =============================================================================================
# BatchNorm
# =============================================================================================
@st.composite
def bn_histories(draw):
    rank = draw(st.sampled_from([2, 3, 4, 4, 5]))
    C = draw(st.integers(1, 3))
    opts = {"C": C, "rank": rank, "momentum": draw(st.sampled_from([0.1, 0.5, 1.0, None, 0.01, 0.0])),
            "affine": draw(st.booleans()), "track": draw(st.sampled_from([True, True, False])),
            "eps": draw(st.sampled_from([1e-5, 1e-3])), "dtype": draw(st.sampled_from(["float32", "float64"])),
            "defaults": draw(st.integers(0, 4)) == 0}
    if opts["affine"]:
        opts["gamma"] = [draw(st.integers(2, 16)) / 8.0 * draw(st.sampled_from([1, -1])) for _ in range(C)]
        opts["beta"] = [draw(st.integers(-8, 8)) / 8.0 for _ in range(C)]
    steps = []
    for _ in range(draw(st.sampled_from([2, 4, 6, 8, 10, 12, 20]))):
        k = draw(st.sampled_from(["train", "eval", "eval", "forward", "forward", "forward", "forward_backward", "load"]))
        s = {"k": k}
        if k in ("forward", "forward_backward"):
            N = draw(st.integers(2, 5))
            shp = [N, C] + [draw(st.integers(1, 3)) for _ in range(rank - 2)]
            s["shape"] = shp
            s["v"] = draw(gen.distinct(shp))
            s["twice"] = draw(st.booleans())
            s["offset"] = [draw(st.sampled_from([0, 0, 0, 1, -1])) for _ in range(C)]
            s["defer"] = draw(st.booleans())        # run this call's backward later, after other calls
            s["g"] = [draw(st.integers(-8, 8)) / 4.0 for _ in range(5)]
        elif k == "load":
            s["rm"] = [draw(st.integers(-16, 16)) / 8.0 for _ in range(C)]
            s["rv"] = [draw(st.integers(1, 40)) / 8.0 for _ in range(C)]
        steps.append(s)
    return {"opts": opts, "steps": steps}


def check_bn(c, rec):
    o = c["opts"]
    dt = np.dtype(o["dtype"])
    C = o["C"]
    cls = nn.BatchNorm2d if o["rank"] >= 4 else nn.BatchNorm1d
    if o["defaults"]:
        m = cls(C)
        o = dict(o, momentum=0.1, affine=True, track=True, eps=1e-5, dtype="float32")
        o.pop("gamma", None)
        dt = np.dtype(np.float32)
    else:
        m = cls(C, eps=o["eps"], momentum=o["momentum"], affine=o["affine"], track_running_stats=o["track"], dtype=dt.type)
    gamma = np.ones(C); beta = np.zeros(C)
    if o["affine"] and "gamma" in o:
        gamma = np.array(o["gamma"]); beta = np.array(o["beta"])
        m.weight = nn.Parameter(Tensor(gamma.astype(dt), requires_grad=True))
        m.bias = nn.Parameter(Tensor(beta.astype(dt), requires_grad=True))
    # reference state
    training = True
    rm = np.zeros(C); rv = np.ones(C); nbt = 0
    tol = 1e-9 if dt == np.float64 else 2e-4
    hist = []
    train_forwards = 0
    switched_between_forwards = False
    last_forward_mode = None
    pending = []          # deferred backward calls: (output tensor, input tensor, g, expected input gradient, label)
    gtol = 1e-7 if dt == np.float64 else 5e-3

    def run_backward(out, t, g, want, label, when):
        snap = state_snapshot()
        out.backward(Tensor(g.copy()))
        if state_snapshot() != snap:
            raise Violation("bn_backward_changed_state", f"backward changed running statistics; opts={o} history={hist}")
        got = np.asarray(t.grad.data, dtype=np.float64)
        sc = max(1.0, float(np.abs(want).max()))
        if got.shape != want.shape or not np.all(np.isfinite(got)) or np.abs(got - want).max() > gtol * sc:
            raise Violation("bn_input_gradient", f"input gradient of {label} (backward run {when}) differs from the gradient of the "
                                                 f"function that forward computed by {np.abs(got - want).max():.3e}; opts={o} "
                                                 f"history={hist}", region=when.split()[0])

    def state_snapshot():
        if not o["track"]:
            return None
        return (m.running_mean.data.tobytes(), m.running_var.data.tobytes(), int(m.num_batches_tracked))

    def check_state(where):
        if not o["track"]:
            if m.running_mean is not None or m.running_var is not None:
                raise Violation("bn_state", f"{where}: track_running_stats=False but running statistics exist; opts={o} history={hist}")
            return
        for name, want in (("running_mean", rm), ("running_var", rv)):
            got = np.asarray(getattr(m, name).data, dtype=np.float64)
            scale = max(1.0, float(np.abs(want).max()))
            if got.shape != want.shape or np.abs(got - want).max() > tol * scale:
                raise Violation("bn_running_stats", f"{where}: {name} = {got.tolist()} but the documented update rule gives "
                                                    f"{want.tolist()}; opts={o} history={hist}", region=name)
        if int(m.num_batches_tracked) != nbt:
            raise Violation("bn_counter", f"{where}: num_batches_tracked = {m.num_batches_tracked}, expected {nbt}; opts={o} history={hist}")

    for s in c["steps"]:
        k = s["k"]
        if k == "train":
            m.train(); training = True; hist.append("train()")
        elif k == "eval":
            m.eval(); training = False; hist.append("eval()")
        elif k == "load":
            if not o["track"]:
                continue
            m.running_mean = Tensor(np.array(s["rm"], dtype=dt))
            m.running_var = Tensor(np.array(s["rv"], dtype=dt))
            rm = np.array(s["rm"], dtype=np.float64); rv = np.array(s["rv"], dtype=np.float64)
            hist.append(f"load rm={s['rm']} rv={s['rv']}")
        else:
            x = gen.arr(s["v"], s["shape"], dt)
            if any(s.get("offset", [])) and dt == np.float64:
                big = 1.0e4
                x = (x.astype(np.float64) + (np.array(s["offset"]) * big).reshape([1, C] + [1] * (x.ndim - 2))).astype(dt)
            x64 = x.astype(np.float64)
            hist.append(f"forward{'+backward' if k == 'forward_backward' else ''}({s['shape']}, training={training}"
                        f"{', offset data' if any(s.get('offset', [])) else ''})")
            if last_forward_mode is not None and last_forward_mode != training:
                switched_between_forwards = True
            last_forward_mode = training
            before = state_snapshot()
            t = Tensor(x.copy(), requires_grad=(k == "forward_backward"))
            out = m(t)
            axes = tuple(i for i in range(x.ndim) if i != 1)
            shp = [1, C] + [1] * (x.ndim - 2)
            use_batch = training or not o["track"]
            if use_batch:
                mean = x64.mean(axis=axes); var = x64.var(axis=axes)
            else:
                mean, var = rm.copy(), rv.copy()
            want = (x64 - mean.reshape(shp)) / np.sqrt(var.reshape(shp) + o["eps"]) * gamma.reshape(shp) + beta.reshape(shp)
            got = np.asarray(out.data, dtype=np.float64)
            scale = max(1.0, float(np.abs(want).max()))
            if got.shape != want.shape or not np.all(np.isfinite(got)) or np.abs(got - want).max() > tol * scale:
                raise Violation("bn_output", f"output differs from normalisation with "
                                             f"{'batch' if use_batch else 'running'} statistics by "
                                             f"{np.abs(got - want).max() if got.shape == want.shape else 'shape'}; opts={o} history={hist}",
                                region="batch" if use_batch else "running")
            if training and o["track"]:
                nbt += 1
                train_forwards += 1
                f = o["momentum"] if o["momentum"] is not None else 1.0 / nbt
                n = x64.size / C
                rm = (1 - f) * rm + f * mean
                rv = (1 - f) * rv + f * var * (n / (n - 1))
            elif training:
                train_forwards += 1
            check_state("after " + hist[-1])
            if not training:
                if state_snapshot() != before:
                    raise Violation("bn_eval_changed_state", f"an eval-mode forward changed running statistics / counter; opts={o} history={hist}")
                if s["twice"]:
                    out2 = m(Tensor(x.copy()))
                    if out2.data.tobytes() != out.data.tobytes():
                        raise Violation("bn_eval_not_deterministic", f"two eval calls on the same input differ; opts={o} history={hist}")
                    if state_snapshot() != before:
                        raise Violation("bn_eval_changed_state", f"repeated eval forward changed state; opts={o} history={hist}")
            if k == "forward_backward":
                g = gen.cyc(s.get("g", [1.0, -0.5, 0.25, 2.0]), out.shape, dt)
                g64 = g.astype(np.float64)
                inv = 1.0 / np.sqrt(var.reshape(shp) + o["eps"])
                gam = gamma.reshape(shp)
                if use_batch:
                    xh = (x64 - mean.reshape(shp)) * inv
                    gg = g64 * gam
                    want_dx = inv * (gg - gg.mean(axis=axes, keepdims=True) - xh * (gg * xh).mean(axis=axes, keepdims=True))
                else:
                    want_dx = g64 * gam * inv
                label = hist[-1]
                if s.get("defer"):
                    pending.append((out, t, g, want_dx, label))
                else:
                    run_backward(out, t, g, want_dx, label, "immediately")
    for out, t, g, want_dx, label in pending:
        run_backward(out, t, g, want_dx, label, "deferred (after later calls on the same layer)")
    if pending:
        rec.tag("deferred_backward")
    rec.nontrivial(switched_between_forwards and train_forwards >= 2)
    rec.tag("momentum_none" if o["momentum"] is None else "momentum_num", "track" if o["track"] else "no_track",
            "affine" if o["affine"] else "no_affine", f"rank{o['rank']}", o["dtype"] if not c["opts"]["defaults"] else "defaults")


# =============================================================================================
# Dropout
# =============================================================================================
@st.composite
def dropout_histories(draw):
    p = draw(st.sampled_from([0.0, 0.1, 0.25, 0.5, 0.75, 0.9, 1.0, 0.3, 0.37, 0.999, 1e-3]))
    steps = []
    for _ in range(draw(st.integers(1, 8))):
        k = draw(st.sampled_from(["train", "eval", "forward", "forward", "forward_backward", "forward_backward"]))
        s = {"k": k}
        if k.startswith("forward"):
            shp = draw(gen.shapes(0, 4, 60))
            s.update(shape=shp, v=draw(gen.grid(shp, -6, 6)), seed=draw(st.integers(0, 2 ** 31 - 1)),
                     g=draw(gen.upstream()))
        steps.append(s)
    return {"p": p, "steps": steps, "dtype": draw(gen.DTYPES), "default_p": draw(st.integers(0, 6)) == 0}


def check_dropout(c, rec):
    dt = np.dtype(c["dtype"])
    p = 0.5 if c["default_p"] else c["p"]
    m = nn.Dropout() if c["default_p"] else nn.Dropout(p)
    training = True
    hist = []
    nt = False
    for s in c["steps"]:
        k = s["k"]
        if k == "train":
            m.train(); training = True; hist.append("train()")
            continue
        if k == "eval":
            m.eval(); training = False; hist.append("eval()")
            continue
        x = gen.arr(s["v"], s["shape"], dt)
        hist.append(f"{k}({s['shape']}, training={training})")
        t = Tensor(x.copy(), requires_grad=(k == "forward_backward"))
        # the mask only depends on the seed and the shape: discover it with an all-ones twin call (C19 establishes
        # that the same seed reproduces the same draws), so that inputs that are exactly 0 can be judged too
        sg.manual_seed(s["seed"])
        twin = np.asarray(m(Tensor(np.ones(x.shape, dtype=dt))).data, dtype=np.float64)
        sg.manual_seed(s["seed"])
        out = m(t)
        y = np.asarray(out.data, dtype=np.float64)
        x64 = x.astype(np.float64)
        if np.any(x64 == 0):
            rec.tag("zero_inputs")
        if y.shape != x.shape:
            raise Violation("dropout_shape", f"output shape {y.shape} != input {x.shape}; p={p} history={hist}")
        if not training:
            if not np.array_equal(y, x64):
                raise Violation("dropout_eval_not_identity", f"eval-mode Dropout changed values; p={p} history={hist}")
            factor = np.ones(x.shape)
        else:
            dropped = (twin == 0)                       # the mask of this seed/shape
            keep = x64 / (1 - p) if p < 1 else np.zeros_like(x64)
            expect = np.where(dropped, 0.0, keep)
            bad = np.abs(y - expect) > 4 * np.finfo(dt).eps * np.abs(expect)
            if np.any(bad):
                i = tuple(np.argwhere(bad)[0])
                raise Violation("dropout_scale", f"training output element {y[i]} is neither 0 (dropped) nor x/(1-p) = {keep[i]} "
                                                 f"(kept) as the mask of this seed prescribes; p={p} history={hist}")
            if p == 0 and np.any(dropped):
                raise Violation("dropout_p0", f"p=0 dropped elements; history={hist}")
            if p == 1 and np.any(~dropped):
                raise Violation("dropout_p1", f"p=1 kept elements; history={hist}")
            factor = np.where(dropped, 0.0, 1.0 / (1 - p) if p < 1 else 0.0)
        if k == "forward_backward" and out.requires_grad:
            g = gen.cyc(s["g"], out.shape, dt)
            out.backward(Tensor(g.copy()))
            gr = np.asarray(t.grad.data, dtype=np.float64)
            want = g.astype(np.float64) * factor
            if gr.shape != want.shape or np.abs(gr - want).max(initial=0.0) > 1e-5 * max(1.0, np.abs(want).max(initial=0.0)):
                raise Violation("dropout_backward_mask", f"input gradient is not g times the forward mask/scale: grad="
                                                         f"{gr.ravel()[:6].tolist()} expected {want.ravel()[:6].tolist()}; p={p} history={hist}")
            if training and 0 < p < 1 and x.size >= 2:
                nt = True
    rec.nontrivial(nt)
    rec.tag(f"p={p}", c["dtype"])


@st.composite
def dropout_stat_cases(draw):
    return {"p": draw(st.sampled_from([0.05, 0.1, 0.25, 0.5, 0.75, 0.9, 0.3])), "seed": draw(st.integers(0, 2 ** 31 - 1)),
            "n": draw(st.sampled_from([20000, 40000, 100000])), "two_d": draw(st.booleans())}


def check_dropout_stats(c, rec):
    p, n = c["p"], c["n"]
    rec.nontrivial(True)
    m = nn.Dropout(p)
    shape = (n // 100, 100) if c["two_d"] else (n,)
    x = Tensor(np.ones(shape, dtype=np.float32))
    sg.manual_seed(c["seed"])
    a = (np.asarray(m(x).data).ravel() == 0).astype(np.float64)
    b = (np.asarray(m(x).data).ravel() == 0).astype(np.float64)
    sd = np.sqrt(p * (1 - p) / n)
    for name, z in (("first call", a), ("second call", b)):
        if abs(z.mean() - p) > 6 * sd:
            raise Violation("dropout_rate", f"{name}: zero fraction {z.mean():.5f} is more than 6 sigma from p={p} (n={n}, seed={c['seed']})")
    # lag-1 autocorrelation and cross-call correlation of the masks: approx N(0, 1/n)
    def corr(u, v):
        u = u - u.mean(); v = v - v.mean()
        return float((u * v).mean() / (u.std() * v.std()))
    r1 = corr(a[:-1], a[1:])
    rc = corr(a, b)
    lim = 6 / np.sqrt(n)
    if abs(r1) > lim:
        raise Violation("dropout_independence", f"lag-1 mask correlation {r1:.4f} exceeds 6/sqrt(n)={lim:.4f} (p={p}, seed={c['seed']})")
    if abs(rc) > lim:
        raise Violation("dropout_independence", f"masks of two consecutive calls correlate: {rc:.4f} > {lim:.4f} (p={p}, seed={c['seed']})")
    if np.array_equal(a, b):
        raise Violation("dropout_independence", "two consecutive training calls used the identical mask")


@st.composite
def _bn_init(draw):
    c = draw(bn_histories())
    return {"opts": c["opts"]}


@st.composite
def _bn_command(draw, ):
    # commands depend on the layer's channel count / rank: drawn against a fixed small configuration grid
    return draw(st.integers(0, 10 ** 6))


def _bn_assemble(init, cmds):
    # deterministic expansion of the drawn integers into commands for this layer's C and rank
    o = init["opts"]
    C, rank = o["C"], o["rank"]
    steps = []
    for v in cmds:
        kinds = ["train", "eval", "eval", "forward", "forward", "forward", "forward_backward", "load"]
        k = kinds[v % len(kinds)]
        s_ = {"k": k}
        r = v // 8
        if k in ("forward", "forward_backward"):
            N = 2 + r % 4
            shp = [N, C] + [1 + (r // (4 * (i + 1))) % 3 for i in range(rank - 2)]
            n = int(np.prod(shp))
            perm = [(i * 7 + r) % n for i in range(n)]
            if len(set(perm)) < n:
                perm = list(range(n))
            s_.update(shape=shp, v=[(p_ - n // 2) / 8.0 for p_ in perm], twice=bool(r % 2), offset=[(r // 5 + i) % 5 // 4 for i in range(C)],
                      defer=bool((r // 3) % 2), g=[((r + i) % 9 - 4) / 4.0 for i in range(5)])
        elif k == "load":
            s_.update(rm=[((r + 3 * i) % 33 - 16) / 8.0 for i in range(C)], rv=[(1 + (r + 5 * i) % 40) / 8.0 for i in range(C)])
        steps.append(s_)
    return {"opts": o, "steps": steps}


def subchecks():
    from ..core import command_machine
    return [SubCheck("batchnorm_rule_based", check_bn, None, steps=14, quick=60, thorough=500, shards_quick=2, shards_thorough=4,
                     machine=command_machine(_bn_init(), _bn_command(), _bn_assemble)),
            SubCheck("batchnorm", check_bn, bn_histories, quick=600, thorough=4000, shards_quick=6, shards_thorough=8),
            SubCheck("dropout", check_dropout, dropout_histories, quick=700, thorough=5000, shards_quick=4, shards_thorough=4),
            SubCheck("dropout_statistics", check_dropout_stats, dropout_stat_cases, quick=40, thorough=600, shards_quick=2,
                     shards_thorough=4)]
