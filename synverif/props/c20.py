"""C20 - Trainer.fit performs one optimisation step per batch in the right mode."""
import contextlib
import importlib
import io

import numpy as np
from hypothesis import strategies as st

from ..core import SubCheck, Violation
from ..env import sg

Tensor = sg.Tensor
nn = sg.nn

RULE = ("configurations: epochs 0-3 x 1-4 training batches of size 2-5 x validation loader absent/present (1-3 "
        "batches) x evaluator absent / BINARY / MULTI_CLASS / CATEGORICAL x on_train_epoch / on_validation_epoch "
        "callbacks x model = Sequential of Linear, optional BatchNorm1d, optional Dropout, activation, sized for the "
        "loss (MSE, BCE-with-logits, cross-entropy, NLL) x optimizer SGD/Adam; plus test().  Oracle: event log from "
        "spies installed from outside (optimizer.step/zero_grad, model.forward, the loss callable, loss.backward): "
        "exactly epochs*len(train_loader) steps, each batch = forward(train mode, every submodule, tracking on) -> "
        "zero_grad -> backward -> step; validation/test forwards see eval mode on every submodule and tracking off; "
        "parameters, BN running statistics and counters byte-identical across validation and test; global gradient "
        "mode restored; history keys and lengths; epoch loss = mean of the recorded batch losses; accuracies equal a "
        "reference count.  non-trivial: epochs >= 2 with a validation loader and a model containing both Dropout "
        "and BatchNorm; distinct by hash of the configuration"
        " Also: list loaders with unequal batch sizes, a second fit() on the same Trainer (other epoch count, validation swapped), a child switched back to training mode before test()."
        " Round 6: a Trainer compiled twice (the second time without the evaluator)."
        " Round 7: models of two inputs fed (x_a, x_b, labels) batches.")
ASSUMPTIONS = ["batches of one sample and loaders without batches are not generated (Evaluator.step squeezes a "
               "single-sample batch to rank 1, which no reading of the statement can decode)",
               "pkbar (progress bar) is replaced by a stand-in when it cannot be imported; it carries no semantics"]


@st.composite
def configs(draw):
    task = draw(st.sampled_from(["mse", "bce_logits", "ce", "nll", "categorical"]))
    c = {"task": task, "epochs": draw(st.sampled_from([0, 1, 2, 2, 3, 3])), "nbatch": draw(st.sampled_from([1, 2, 3, 4])),
         "bs": draw(st.sampled_from([2, 3, 4, 5])), "val": draw(st.sampled_from([0, 1, 2, 3, 2])),
         "evaluator": draw(st.booleans()), "cb_train": draw(st.booleans()), "cb_val": draw(st.booleans()),
         "bn": draw(st.sampled_from([True, True, False])), "dropout": draw(st.sampled_from([True, True, False])), "act": draw(st.sampled_from(["tanh", "relu", "sigmoid"])),
         "opt": draw(st.sampled_from(["sgd", "adam"])), "seed": draw(st.integers(0, 2 ** 31 - 1)),
         "classes": draw(st.integers(2, 4)), "extra": draw(st.integers(0, 3)), "test": draw(st.booleans()),
         "construct_under_no_grad": draw(st.sampled_from([False, False, True])),
         "peek": draw(st.sampled_from([0, 0, 1, 2])), "cb_sets_eval": draw(st.booleans()),
         "custom_metric": draw(st.booleans()), "no_accuracy": draw(st.sampled_from([False, False, True])),
         "test_under_no_grad": draw(st.booleans()),
         # what is handed to fit/test: the library's DataLoader, or any sized iterable of batches (a plain list whose
         # batches differ in size - the last one short, as with drop_last=False loaders)
         "loader_kind": draw(st.sampled_from(["DataLoader", "DataLoader", "list_unequal"])),
         # the same compiled Trainer is fitted a second time (other epoch count, validation loader swapped in/out)
         "refit": draw(st.sampled_from([None, None, 1, 2])),
         # before test(): the root says eval but a mode-dependent child was switched back to training on its own
         "child_train_before_test": draw(st.booleans()),
         # the Trainer was compiled before, with other collaborators (an evaluator that the final compile() leaves out)
         "recompile": draw(st.sampled_from([False, False, True])),
         # batches (x_a, x_b, labels) for a model of two inputs: everything before the last item is passed to the model
         "two_inputs": draw(st.sampled_from([False, False, True]))}
    if c["two_inputs"]:
        c["loader_kind"] = "list_unequal" if c["loader_kind"] == "list_unequal" else "list_equal"
    return c


def _all_submodules(m):
    out = []
    for ch in m.submodules():
        out.append(ch)
        out.extend(_all_submodules(ch))
    return out


def check_fit(c, rec):
    train_mod = importlib.import_module("synapgrad.nn.utils.train")
    data_mod = importlib.import_module("synapgrad.nn.utils.data")
    rng = np.random.RandomState(c["seed"])
    sg.manual_seed(c["seed"])
    task = c["task"]
    C = c["classes"] if task in ("ce", "nll", "categorical") else 1
    fin, hid = 3, 4
    layers = [nn.Linear(fin, hid)]
    if c["bn"]:
        layers.append(nn.BatchNorm1d(hid))
    layers.append({"tanh": nn.Tanh, "relu": nn.ReLU, "sigmoid": nn.Sigmoid}[c["act"]]())
    if c["dropout"]:
        layers.append(nn.Dropout(0.4))
    layers.append(nn.Linear(hid, C))
    if task == "nll":
        layers.append(nn.LogSoftmax(1))
    model = nn.Sequential(*layers)
    if c.get("two_inputs"):
        class TwoIn(nn.Module):
            def __init__(self, body):
                super().__init__()
                self.body = body

            def forward(self, a, b):
                return self.body(a + b)
        model = TwoIn(model)
        rec.tag("model_of_two_inputs")
    all_modules = [model] + [m_ for m_ in _all_submodules(model)]
    loss_real = {"mse": nn.MSELoss, "bce_logits": nn.BCEWithLogitsLoss, "ce": nn.CrossEntropyLoss, "nll": nn.NLLLoss,
                 "categorical": nn.MSELoss}[task]()
    params = model.parameters()
    opt = sg.optim.SGD(params, lr=0.05, momentum=0.5) if c["opt"] == "sgd" else sg.optim.Adam(params, lr=0.01)
    bns = [m for m in _all_submodules(model) if isinstance(m, nn.BatchNorm1d)]

    unequal = c.get("loader_kind") == "list_unequal"
    as_list = unequal or c.get("loader_kind") == "list_equal"
    n_samples = {}

    def make_loader(nb):
        sizes = [c["bs"]] * nb
        if unequal:
            sizes = [max(2, c["bs"] + d) for d in ([0, 3, -2, 1] * nb)[:nb]]
            if nb == 1:
                sizes = [c["bs"]]
            n = sum(sizes)
        else:
            n = nb * c["bs"] + (c["extra"] % c["bs"])
        X = rng.randn(n, fin).astype(np.float32)
        if task in ("mse", "bce_logits"):
            y = rng.randint(0, 2, size=n).astype(np.float32)
        elif task in ("ce", "nll"):
            y = rng.randint(0, C, size=n).astype(np.int64)
        else:
            y = np.eye(C, dtype=np.float32)[rng.randint(0, C, size=n)]

        class T(data_mod.DataLoaderCallback):
            def __call__(self, loader, Xb, yb):
                return Tensor(np.array(Xb)), Tensor(np.array(yb))
        if as_list:
            ld, lo = [], 0
            if not unequal:
                sizes = [c["bs"]] * nb
            for sz in sizes:
                if c.get("two_inputs"):
                    xa = X[lo:lo + sz] * 0.25
                    ld.append((Tensor(xa.copy()), Tensor((X[lo:lo + sz] - xa).copy()), Tensor(y[lo:lo + sz].copy())))
                else:
                    ld.append((Tensor(X[lo:lo + sz].copy()), Tensor(y[lo:lo + sz].copy())))
                lo += sz
        else:
            ld = data_mod.DataLoader(X, y, c["bs"], transform=T())
        n_samples[id(ld)] = sum(sizes)
        return ld

    train_loader = make_loader(c["nbatch"])
    val_loader = make_loader(c["val"]) if c["val"] else None
    ev_mode = {"mse": "binary", "bce_logits": "binary", "ce": "multi-class", "nll": "multi-class", "categorical": "categorical"}[task]
    def epoch_metric(y_true, y_pred):
        return [("disagree", np.float64((np.asarray(y_true) != np.asarray(y_pred)).mean()))]

    custom = bool(c.get("custom_metric")) and c["evaluator"]
    with_acc = not (c.get("no_accuracy") and custom)
    evaluator = None
    if c["evaluator"]:
        evaluator = train_mod.Evaluator(mode=ev_mode, accuracy=with_acc, epoch_callback=epoch_metric if custom else None)
    has_both = c["bn"] and c["dropout"]
    rec.nontrivial(c["epochs"] >= 2 and bool(c["val"]) and has_both)
    if unequal and c["nbatch"] > 1:
        rec.tag("list_loader_with_unequal_batches")
    rec.tag(task, "val" if c["val"] else "no_val", "evaluator" if c["evaluator"] else "no_evaluator", f"epochs{c['epochs']}")
    ctx = f"config={c}"

    # ---- spies -------------------------------------------------------------------------------------
    events = []

    def modes():
        return [bool(m.training) for m in all_modules]

    def tracking_on():
        return bool(Tensor(1.0, requires_grad=True).requires_grad)

    def snapshot():
        s = [p.data.tobytes() for p in params]
        for b in bns:
            s += [b.running_mean.data.tobytes(), b.running_var.data.tobytes(), str(int(b.num_batches_tracked)).encode()]
        return s

    real_forward = model.forward

    def forward_spy(*xs):
        ev = {"e": "forward", "modes": modes(), "tracking": tracking_on(), "snap": snapshot()}
        events.append(ev)
        out = real_forward(*xs)
        ev["out"] = np.array(out.data)
        return out
    model.forward = forward_spy

    def loss_spy(outputs, labels):
        l = loss_real(outputs, labels)
        ev = {"e": "loss", "value": float(np.asarray(l.data)), "labels": np.array(labels.data), "outputs": np.array(outputs.data)}
        events.append(ev)
        if l.requires_grad:
            real_backward = l.backward

            def backward_spy(*a, **k):
                events.append({"e": "backward"})
                return real_backward(*a, **k)
            l.backward = backward_spy
        return l

    real_step, real_zero = opt.step, opt.zero_grad

    def step_spy():
        events.append({"e": "step", "modes": modes()})
        return real_step()

    def zero_spy():
        events.append({"e": "zero_grad", "modes": modes()})
        return real_zero()
    opt.step, opt.zero_grad = step_spy, zero_spy
    cb_calls = {"train": [], "val": []}

    def on_train(m, loader):
        cb_calls["train"].append((m is model, loader is train_loader))
        if c.get("cb_sets_eval"):
            m.eval()          # e.g. a monitoring prediction: fit must still train in training mode

    def on_val(m, loader):
        cb_calls["val"].append((m is model, loader is val_loader))

    if c.get("construct_under_no_grad"):
        # the trainer object is created (and compiled) while tracking is disabled, then used normally
        with sg.no_grad():
            trainer = train_mod.Trainer(model, sg)
            trainer.compile(loss_spy, opt, evaluator)
        rec.tag("constructed_under_no_grad")
    else:
        trainer = train_mod.Trainer(model, sg)
        if c.get("recompile"):
            stale_calls = []

            def stale_metric(y_true, y_pred):
                stale_calls.append(1)
                return [("stale", np.float64(0.0))]
            trainer.compile(loss_spy, opt, train_mod.Evaluator(mode=ev_mode, accuracy=True, epoch_callback=stale_metric))
            rec.tag("compiled_twice")
        trainer.compile(loss_spy, opt, evaluator)
    for _ in range(c.get("peek", 0)):
        # a shape check on the first batch(es) before training: the loader must still deliver every batch of every epoch
        it = iter(train_loader)
        for _k in range(c["peek"]):
            try:
                next(it)
            except StopIteration:
                break
        rec.tag("loader_peeked_before_fit")
        break
    events.clear()
    mode_before = tracking_on()
    kw = {}
    if c["cb_train"]:
        kw["on_train_epoch"] = on_train
    if c["cb_val"]:
        kw["on_validation_epoch"] = on_val
    try:
        with contextlib.redirect_stdout(io.StringIO()):
            history = trainer.fit(train_loader, c["epochs"], val_loader, **kw)
    except Exception as e:  # noqa: BLE001
        raise Violation("fit_raised", f"fit raised {type(e).__name__}: {e}; {ctx}")
    end_snap = snapshot()
    if tracking_on() != mode_before:
        raise Violation("grad_mode_leaked", f"global gradient mode after fit differs from the mode before; {ctx}")

    # ---- analyse the event log -----------------------------------------------------------------------
    E, nb, nv = c["epochs"], len(train_loader), (len(val_loader) if val_loader is not None else 0)
    steps = [e for e in events if e["e"] == "step"]
    if len(steps) != E * nb:
        raise Violation("step_count", f"{len(steps)} optimizer steps for epochs*len(train_loader) = {E}*{nb}; {ctx}")
    i = 0
    batch_losses = [[] for _ in range(E)]
    val_losses = [[] for _ in range(E)]
    train_io = [[] for _ in range(E)]
    val_io = [[] for _ in range(E)]
    for ep in range(E):
        for b in range(nb):
            seq = [events[i + k]["e"] if i + k < len(events) else None for k in range(5)]
            if seq != ["forward", "loss", "zero_grad", "backward", "step"]:
                raise Violation("batch_protocol", f"epoch {ep} batch {b}: events {seq}, expected forward, loss, zero_grad, "
                                                  f"backward, step; {ctx}")
            f, l, z, _, s = events[i:i + 5]
            if not all(f["modes"]) or not all(s["modes"]) or not all(z["modes"]):
                raise Violation("train_mode", f"epoch {ep} batch {b}: model/submodules not all in training mode at the "
                                              f"forward/zero_grad/step (modes {f['modes']} / {s['modes']}); {ctx}")
            if not f["tracking"]:
                raise Violation("train_tracking_off", f"epoch {ep} batch {b}: gradient tracking disabled during a training forward; {ctx}")
            batch_losses[ep].append(l["value"])
            train_io[ep].append((l["labels"], l["outputs"]))
            i += 5
        if nv:
            first_val_snap = None
            for b in range(nv):
                seq = [events[i + k]["e"] if i + k < len(events) else None for k in range(2)]
                if seq != ["forward", "loss"]:
                    raise Violation("validation_protocol", f"epoch {ep} validation batch {b}: events {seq}; {ctx}")
                f, l = events[i:i + 2]
                if any(f["modes"]):
                    raise Violation("validation_mode", f"epoch {ep}: validation forward with training flags {f['modes']} "
                                                       f"(model and every submodule must be in eval mode); {ctx}")
                if f["tracking"]:
                    raise Violation("validation_tracking", f"epoch {ep}: gradient tracking enabled during validation; {ctx}")
                if first_val_snap is None:
                    first_val_snap = f["snap"]
                val_losses[ep].append(l["value"])
                val_io[ep].append((l["labels"], l["outputs"]))
                i += 2
            after = events[i]["snap"] if i < len(events) and events[i]["e"] == "forward" else end_snap
            if after != first_val_snap:
                raise Violation("validation_changed_state", f"epoch {ep}: parameters / running statistics / counters "
                                                            f"changed across the validation phase; {ctx}")
    if i != len(events):
        raise Violation("extra_events", f"{len(events) - i} unexpected events after the last epoch: "
                                        f"{[e['e'] for e in events[i:i + 6]]}; {ctx}")
    # ---- history ---------------------------------------------------------------------------------
    want_keys = set()
    if E > 0:
        want_keys = {"loss"} | ({"accuracy"} if evaluator and with_acc else set()) | ({"disagree"} if custom else set())
        if nv:
            want_keys |= {"val_" + k for k in want_keys}
    if set(history.keys()) != want_keys:
        raise Violation("history_keys", f"history keys {sorted(history.keys())}, expected {sorted(want_keys)}; {ctx}")
    for k, v in history.items():
        if len(v) != E:
            raise Violation("history_length", f"history[{k!r}] has {len(v)} entries for {E} epochs; {ctx}")
    for ep in range(E):
        want = float(np.mean(np.array(batch_losses[ep], dtype=np.float64)))
        got = float(history["loss"][ep])
        if abs(got - want) > 1e-5 * max(1.0, abs(want)):
            raise Violation("epoch_loss", f"history['loss'][{ep}] = {got} but the mean of that epoch's batch losses is {want} "
                                          f"({batch_losses[ep]}); {ctx}")
        if nv:
            want = float(np.mean(np.array(val_losses[ep], dtype=np.float64)))
            got = float(history["val_loss"][ep])
            if abs(got - want) > 1e-5 * max(1.0, abs(want)):
                raise Violation("epoch_loss", f"history['val_loss'][{ep}] = {got}, mean of validation batch losses {want}; {ctx}")
        if evaluator:
            metric_keys = ([("accuracy", train_io[ep])] + ([("val_accuracy", val_io[ep])] if nv else [])) if with_acc else []
            if custom:
                metric_keys += [("disagree", train_io[ep])] + ([("val_disagree", val_io[ep])] if nv else [])
            for key, io_ in metric_keys:
                correct = total = 0
                for labels, outputs in io_:
                    if ev_mode == "binary":
                        pred = (outputs.reshape(len(labels)) > 0.5).astype(int); true = labels.astype(int)
                    elif ev_mode == "multi-class":
                        pred = outputs.argmax(axis=1); true = labels.astype(int)
                    else:
                        pred = outputs.argmax(axis=1); true = labels.argmax(axis=1)
                    correct += int((pred == true).sum()); total += len(true)
                want = correct / total
                if key.endswith("disagree"):
                    want = 1.0 - want
                got = float(history[key][ep])
                if abs(got - want) > 1e-9:
                    raise Violation("accuracy", f"history[{key!r}][{ep}] = {got}, fraction of correct predictions is {want}; {ctx}")
    for name, flag, n_exp in (("train", c["cb_train"], E), ("val", c["cb_val"], E if nv else 0)):
        calls = cb_calls[name]
        if flag and (len(calls) != n_exp or not all(a and b for a, b in calls)):
            raise Violation("callbacks", f"on_{name}_epoch called {len(calls)} times (expected {n_exp}) or with wrong arguments; {ctx}")
    # ---- a second fit() on the same compiled Trainer: its history describes that call only ---------------
    if c.get("refit") and E > 0:
        E2 = c["refit"]
        val2 = None if val_loader is not None else make_loader(2)
        events.clear()
        try:
            with contextlib.redirect_stdout(io.StringIO()):
                h2 = trainer.fit(train_loader, E2, val2)
        except Exception as e:  # noqa: BLE001
            raise Violation("fit_raised", f"a second fit() raised {type(e).__name__}: {e}; {ctx}")
        rec.tag("second_fit_on_same_trainer")
        n2 = len([e for e in events if e["e"] == "step"])
        if n2 != E2 * nb:
            raise Violation("step_count", f"second fit: {n2} optimizer steps for {E2}*{nb}; {ctx}")
        want2 = {"loss"} | ({"accuracy"} if evaluator and with_acc else set()) | ({"disagree"} if custom else set())
        if val2 is not None:
            want2 |= {"val_" + k for k in want2}
        if set(h2.keys()) != want2:
            raise Violation("history_keys", f"second fit ({'with' if val2 is not None else 'without'} validation loader): history "
                                            f"keys {sorted(h2.keys())}, expected {sorted(want2)}; {ctx}", region="refit")
        for k, v in h2.items():
            if len(v) != E2:
                raise Violation("history_length", f"second fit: history[{k!r}] has {len(v)} entries for {E2} epochs; {ctx}",
                                region="refit")
    # ---- test() --------------------------------------------------------------------------------------
    if c["test"]:
        if c.get("child_train_before_test"):
            model.eval()
            for m_ in _all_submodules(model):
                if isinstance(m_, (nn.BatchNorm1d, nn.Dropout)):
                    m_.train()
                    rec.tag("child_in_training_mode_before_test")
                    break
        events.clear()
        test_loader = make_loader(2)
        before = snapshot()
        outer = sg.no_grad() if c.get("test_under_no_grad") else contextlib.nullcontext()
        try:
            with outer:
                mode_before = tracking_on()
                with contextlib.redirect_stdout(io.StringIO()):
                    y_pred, y_true = trainer.test(test_loader)
                mode_after = tracking_on()
        except Exception as e:  # noqa: BLE001
            raise Violation("test_raised", f"test raised {type(e).__name__}: {e}; {ctx}")
        if mode_after != mode_before:
            raise Violation("grad_mode_leaked", f"test() called with gradient tracking {'on' if mode_before else 'off'} left it "
                                                f"{'on' if mode_after else 'off'}; {ctx}")
        mode_before = tracking_on()
        fw = [e for e in events if e["e"] == "forward"]
        if len(fw) != len(test_loader) or any(e["e"] in ("step", "zero_grad", "backward") for e in events):
            raise Violation("test_protocol", f"test(): events {[e['e'] for e in events]}; {ctx}")
        for f in fw:
            if any(f["modes"]) or f["tracking"]:
                raise Violation("test_mode", f"test(): forward in training mode {f['modes']} or with tracking {f['tracking']}; {ctx}")
        if snapshot() != before:
            raise Violation("test_changed_state", f"test() changed parameters or running statistics; {ctx}")
        if tracking_on() != mode_before:
            raise Violation("grad_mode_leaked", f"global gradient mode after test() differs from before; {ctx}")
        if len(y_pred) != n_samples[id(test_loader)] or len(y_true) != len(y_pred):
            raise Violation("test_output", f"test() returned {len(y_pred)} predictions / {len(y_true)} labels; {ctx}")


def subchecks():
    return [SubCheck("fit", check_fit, configs, quick=250, thorough=4000, shards_quick=8, shards_thorough=16)]
