"""C17 - backward scales to deep graphs and untracked computations keep no history."""
import gc
import sys
import weakref

import numpy as np
from hypothesis import strategies as st

from ..core import HarnessError, SubCheck, Violation
from ..env import sg

Tensor = sg.Tensor
BF = sg.functional.BackwardFunction

RULE = ("programs: chains y <- op_i(y) with op_i drawn from {+c, *c, tanh (<=12 of them), identity index, reshape, "
        "clone} and generated depth up to 1e4 (quick) / 5e4 (thorough); wide graphs (w branches summed by a running "
        "sum or by stack+sum, w <= 5000); ladders of diamonds (depth <= 5000); untracked update loops of length up "
        "to 1e4 inside no_grad and with operands none of which require grad.  Oracle: backward completes, leaf "
        "gradient equals the closed form (product of local derivatives / path counts), BackwardFunction.__call__ "
        "(wrapped from outside) fires exactly once per recorded op; number of Python source lines executed by backward (sys.monitoring) for size "
        "2n <= 2.2 x that for n; every intermediate of an untracked loop except the last is dead (weak references "
        "after gc.collect()).  non-trivial: depth >= 1000 (above the interpreter's default recursion limit) or loop "
        "length >= 1000; distinct by hash of the case"
        " Round 5 (thorough tier): CPU time of backward per recorded operation at n = 2e4 vs 3.2-4e5 (minimum ratio of up to three runs <= 3.5)."
        " Round 6: one op with 3 000 / 48 000 operands in the CPU-time check; untracked loops whose every step is a view (transpose/reshape/[...] chains, rest = rest[1:]) or a conv / pool call."
        " Round 7: no collector pass during backward with automatic collection off (backward_is_local); tracked loops cut by detach().")
ASSUMPTIONS = ["'any size that fits in memory' is explored up to 5e4 sequential ops; beyond that only the linear "
               "call-count argument extrapolates",
               "cost is asserted on the deterministic number of Python source lines executed (sys.monitoring), never on "
               "wall time; quadratic behaviour inside a single C call is invisible to it and is covered, in the thorough tier "
               "only, by a CPU-time-per-operation ratio between two sizes (minimum of three runs, threshold 3.5 against "
               "1.1-1.3 measured on the unchanged tree)"]

DEPTHS_Q = [10, 100, 1000, 1000, 3000, 10000]
DEPTHS_T = [10, 100, 1000, 3000, 10000, 20000, 50000]


class CallLog:
    """wraps BackwardFunction.__call__ from outside for the duration of a with-block"""

    def __enter__(self):
        self.calls = {}
        self.orig = BF.__call__
        log = self.calls
        orig = self.orig

        def wrapped(bf):
            log[id(bf)] = log.get(id(bf), 0) + 1
            return orig(bf)
        BF.__call__ = wrapped
        return self

    def __exit__(self, *a):
        BF.__call__ = self.orig


@st.composite
def graph_cases(draw, tier_depths):
    kind = draw(st.sampled_from(["chain", "chain", "chain", "wide_running", "wide_stack", "diamonds"]))
    c = {"kind": kind, "x": [draw(st.integers(-8, 8)) / 8.0 for _ in range(draw(st.integers(1, 3)))]}
    if kind == "chain":
        c["depth"] = draw(st.sampled_from(tier_depths))
        c["ops"] = draw(st.lists(st.sampled_from(["addc", "mulc", "index", "reshape", "clone", "addc", "mulc"]), min_size=3, max_size=9))
        c["tanh_at"] = sorted(draw(st.lists(st.integers(0, c["depth"] - 1), max_size=12)))
        c["c"] = draw(st.sampled_from([1.0001, 0.9999, 1.0, 0.99995]))
    elif kind.startswith("wide"):
        c["w"] = draw(st.sampled_from([10, 100, 1000, 2000, 5000 if tier_depths is DEPTHS_T else 2000]))
        c["coef"] = [draw(st.integers(-4, 4)) / 4.0 for _ in range(5)]
    else:
        c["depth"] = draw(st.sampled_from([10, 100, 1000, 2000, 5000 if tier_depths is DEPTHS_T else 2000]))
        c["a"] = draw(st.sampled_from([0.5, 0.25, 0.75]))
    return c


def check_graph(c, rec):
    x0 = np.array(c["x"], dtype=np.float64)
    x = Tensor(x0.copy(), requires_grad=True)
    kind = c["kind"]
    n_ops = 0
    size = c.get("depth", c.get("w", 0))
    rec.nontrivial(size >= 1000)
    rec.tag(kind, f"size>={10 ** int(np.log10(max(size, 1)))}")
    ctx = {k: v for k, v in c.items() if k not in ("tanh_at",)}
    # ---- build + closed-form derivative ----------------------------------------------------------
    if kind == "chain":
        y = x
        val = x0.copy(); der = np.ones_like(x0)
        tan = set(c["tanh_at"])
        ops = c["ops"]
        for i in range(c["depth"]):
            if i in tan:
                y = sg.tanh(y); n_ops += 1
                val = np.tanh(val); der = der * (1 - val ** 2)
                continue
            op = ops[i % len(ops)]
            if op == "addc":
                y = y + 0.001; n_ops += 1
                val = val + 0.001
            elif op == "mulc":
                y = y * c["c"]; n_ops += 1
                val = val * c["c"]; der = der * c["c"]
            elif op == "index":
                y = y[...]; n_ops += 1
            elif op == "reshape":
                y = y.reshape((-1,)); n_ops += 1
            else:
                y = y.clone(); n_ops += 1
        root = y
        g = np.linspace(1.0, 2.0, x0.size)
        want = der * g
    elif kind == "wide_running":
        coef = c["coef"]
        total = None
        s = 0.0
        for i in range(c["w"]):
            t = x * coef[i % len(coef)]; n_ops += 1
            s += coef[i % len(coef)]
            if total is None:
                total = t
            else:
                total = total + t; n_ops += 1
        root = total
        g = np.linspace(1.0, 2.0, x0.size)
        want = s * g
    elif kind == "wide_stack":
        coef = c["coef"]
        terms = []
        s = 0.0
        for i in range(c["w"]):
            terms.append(x * coef[i % len(coef)]); n_ops += 1
            s += coef[i % len(coef)]
        root = sg.stack(terms, 0).sum(0); n_ops += 2
        g = np.linspace(1.0, 2.0, x0.size)
        want = s * g
    else:
        a = c["a"]; b = 1.0 - a
        y = x
        for _ in range(c["depth"]):
            y = y * a + y * b; n_ops += 3
        root = y
        g = np.linspace(1.0, 2.0, x0.size)
        want = np.ones_like(x0) * g            # (a+b)^depth = 1
    # ---- backward with the call log -------------------------------------------------------------
    with CallLog() as log:
        try:
            root.backward(Tensor(g.copy()))
        except RecursionError:
            raise Violation("recursion_error", f"backward raised RecursionError on a graph of {n_ops} operations; {ctx}")
        except Exception as e:  # noqa: BLE001
            raise Violation("backward_raised", f"backward raised {type(e).__name__}: {e} on a graph of {n_ops} operations; {ctx}")
    got = np.asarray(x.grad.data, dtype=np.float64)
    scale = max(1.0, float(np.abs(want).max()))
    if got.shape != want.shape or not np.all(np.isfinite(got)) or np.abs(got - want).max() > 1e-7 * scale * max(1, np.log10(max(size, 10))):
        raise Violation("gradient", f"leaf gradient {got.tolist()} != closed form {want.tolist()} on a graph of {n_ops} operations; {ctx}")
    counts = list(log.calls.values())
    if len(counts) != n_ops or any(v != 1 for v in counts):
        raise Violation("visit_count", f"{len(counts)} distinct backward functions invoked "
                                       f"(max {max(counts) if counts else 0} times each) for {n_ops} recorded operations; {ctx}")


# ---- cost: deterministic call counts ------------------------------------------------------------
def _count_calls(n, kind):
    x = Tensor(np.array([0.5, -0.25]), requires_grad=True)
    y = x
    if kind == "chain":
        for _ in range(n):
            y = y * 1.0001 + 0.0001
    elif kind == "wide_stack":
        y = sg.stack([x * (1.0 + 0.001 * i) for i in range(n)], 0).sum(0)
    elif kind == "wide_concat":
        y = sg.concat([sg.tanh(x) for _ in range(n)], 0)
        y = y.reshape((n, 2)).sum(0)
    elif kind == "wide_sum":
        parts = [x * (1.0 + 0.001 * i) for i in range(n)]          # one leaf with n consumers, summed pairwise
        while len(parts) > 1:
            parts = [parts[i] + parts[i + 1] if i + 1 < len(parts) else parts[i] for i in range(0, len(parts), 2)]
        y = parts[0]
    else:
        for _ in range(n):
            y = y * 0.5 + y * 0.5
    cnt = [0]
    g = Tensor(np.ones(2))
    # work = number of Python source lines executed during backward (sys.monitoring LINE events, every execution
    # counted): it sees Python-level calls AND Python-level loops whose body only does C-level work (set look-ups)
    mon = sys.monitoring
    tool = None
    for tid in (mon.PROFILER_ID, mon.OPTIMIZER_ID, 3, 4):
        try:
            mon.use_tool_id(tid, "synverif-c17")
            tool = tid
            break
        except ValueError:
            continue
    if tool is None:
        raise HarnessError("no free sys.monitoring tool id")

    def on_line(code, line):
        cnt[0] += 1
    try:
        mon.register_callback(tool, mon.events.LINE, on_line)
        mon.set_events(tool, mon.events.LINE)
        y.backward(g)
    finally:
        mon.set_events(tool, 0)
        mon.register_callback(tool, mon.events.LINE, None)
        mon.free_tool_id(tool)
    return cnt[0]


@st.composite
def cost_cases(draw):
    return {"n": draw(st.sampled_from([500, 1000, 2000])), "kind": draw(st.sampled_from(["chain", "diamonds", "wide_stack", "wide_concat", "wide_sum"]))}


def enum_cost(tier, shard, nshards):
    """every graph family at every size of the tier (the space is tiny: enumerate instead of sampling)"""
    i = 0
    for n in ((500, 1000) if tier == "quick" else (500, 1000, 2000, 4000, 8000)):
        for kind in ("chain", "diamonds", "wide_stack", "wide_concat", "wide_sum"):
            i += 1
            if i % nshards == shard:
                yield {"n": n, "kind": kind}


def check_cost(c, rec):
    rec.nontrivial(True)
    try:
        a = _count_calls(c["n"], c["kind"])
        b = _count_calls(2 * c["n"], c["kind"])
    except RecursionError:
        raise Violation("recursion_error", f"backward raised RecursionError at size {c['n']} ({c['kind']})")
    if b > 2.2 * a:
        raise Violation("superlinear", f"Python source lines executed during backward: {a} for n={c['n']}, {b} for 2n (ratio {b / a:.2f} > 2.2); {c}")
    rec.tag(f"ratio~{round(b / a, 1)}")


# ---- backward touches only its graph: no process-wide garbage collection inside it ---------------------------------------
@st.composite
def local_cases(draw):
    return {"n": draw(st.integers(1, 6)), "calls": draw(st.integers(1, 4)), "junk": draw(st.sampled_from([0, 1000, 20000]))}


def check_local(c, rec):
    """With automatic collection switched off, any collector pass observed during backward is one the library asked for:
    its cost is proportional to everything alive in the process, not to the graph being differentiated."""
    rec.nontrivial(c["junk"] > 0)
    junk = [[i] for i in range(c["junk"])]
    x = Tensor(np.array([0.5, -0.25]), requires_grad=True)
    y = x
    for _ in range(c["n"]):
        y = y * 1.5 + y
    passes = []

    def cb(phase, info):
        if phase == "start":
            passes.append(info.get("generation"))
    gc.collect()
    gc.disable()
    gc.callbacks.append(cb)
    try:
        for _ in range(c["calls"]):
            y.backward(Tensor(np.ones(2)))
    finally:
        gc.callbacks.remove(cb)
        gc.enable()
    del junk
    if passes:
        raise Violation("superlinear", f"backward on a graph of {2 * c['n']} operations ran the process-wide garbage collector {len(passes)} "
                                       f"time(s) (generations {passes[:4]}): its cost then grows with everything alive in the process; {c}",
                        region="gc_in_backward")


# ---- cost inside single C calls (list.insert(0, ...), repeated concatenation): CPU time per recorded operation ------
@st.composite
def cpu_cost_cases(draw):
    kind = draw(st.sampled_from(["chain", "diamonds", "wide_stack", "wide_stack"]))
    if kind == "wide_stack":        # ONE op with n operands: per-operand copies of the operand tuple would be quadratic
        return {"n1": 3000, "n2": 48000, "kind": kind}
    return {"n1": 20000, "n2": draw(st.sampled_from([320000, 400000])), "kind": kind}


def check_cpu_cost(c, rec):
    """Line counts cannot see work done inside one C call.  Here the process CPU time of backward per recorded operation
    is compared between a graph of n1 and one of n2 = 16-20 x n1 operations; linear cost keeps the ratio near 1 (1.1-1.3
    measured), quadratic cost makes it grow with n2/n1 (6.9 measured for an insert-at-front ordering).  The verdict
    uses the MINIMUM ratio of three repetitions and a threshold of 3.5; garbage collection is off while timing."""
    import time as _time
    rec.nontrivial(True)
    rec.tag(c["kind"])

    def per_op(n):
        x = Tensor(np.array([0.5, -0.25]), requires_grad=True)
        y = x
        if c["kind"] == "chain":
            for _ in range(n // 2):
                y = y * 1.0001 + 0.0001
        elif c["kind"] == "wide_stack":
            y = sg.stack([x * (1.0 + 0.001 * (i % 97)) for i in range(n)], 0).sum(0)
        else:
            for _ in range(n // 3):
                y = y * 0.5 + y * 0.5
        g = Tensor(np.ones(2))
        gc.collect()
        gc.disable()
        try:
            t0 = _time.process_time()
            y.backward(g)
            dt_ = _time.process_time() - t0
        finally:
            gc.enable()
        del y, x
        gc.collect()
        return dt_ / n

    ratios = []
    for _ in range(3):
        a = per_op(c["n1"])
        b = per_op(c["n2"])
        ratios.append(b / max(a, 1e-9))
        if ratios[-1] <= 3.5:
            break                          # one clean measurement settles it
    rec.tag(f"ratio~{round(min(ratios), 1)}")
    if min(ratios) > 3.5:
        raise Violation("superlinear", f"CPU time of backward per recorded operation grows with the size of the graph: "
                                       f"x{min(ratios):.1f} (minimum of {len(ratios)} runs) between n={c['n1']} and n={c['n2']} ({c['kind']})",
                        region="cpu_time")


# ---- untracked loops keep no history ---------------------------------------------------------------
@st.composite
def loop_cases(draw, lengths):
    return {"L": draw(st.sampled_from(lengths)),
            "mode": draw(st.sampled_from(["no_grad", "no_requires_grad", "no_grad_on_param", "no_grad_after_backward", "tracked_detach"])),
            "body": draw(st.sampled_from(["affine", "tanh", "matmul", "index", "sum_broadcast", "varying_scalars", "varying_scalars", "views_only", "slice_shrink", "conv", "pool"])), "dtype": draw(st.sampled_from(["float32", "float64"])),
            # the loop runs while retain_grads() is in force as well (it concerns recorded tensors only)
            "retain": draw(st.sampled_from([False, False, True]))}


def check_loop(c, rec):
    L = c["L"]
    rec.nontrivial(L >= 1000)
    rec.tag(c["mode"], c["body"])
    dt = np.dtype(c["dtype"])
    on_param = c["mode"] in ("no_grad_on_param", "no_grad_after_backward", "tracked_detach")
    w = Tensor(np.eye(3, dtype=dt) * 0.999, requires_grad=on_param)
    y = Tensor(np.ones((2, 3), dtype=dt), requires_grad=on_param)
    recorded = (y * w.sum()).sum() if c["mode"] == "no_grad_after_backward" else None   # a graph recorded normally
    refs = []

    step = [0]

    def body(t):
        step[0] += 1
        if c["body"] == "varying_scalars":
            # coefficients that change every step (decaying rate, running mean): t <- t*(1 - 1/(i+2)) + 1/(i+3) - 0.001/i
            i = step[0]
            return t * (1.0 - 1.0 / (i + 2)) + 1.0 / (i + 3) - 0.001 / i
        if c["body"] == "views_only":
            # every step returns a VIEW of its operand's memory (no fresh array breaks the chain)
            return t.transpose(0, 1).transpose(0, 1).unsqueeze(0).squeeze(0).reshape(tuple(t.shape))[...]
        if c["body"] == "conv":
            return sg.nn.functional.conv2d(t.reshape((1, 1, 2, 3)), kern, None, 1, 1).reshape((2, 3)) * 0.25
        if c["body"] == "pool":
            return sg.nn.functional.avg_pool2d(t.reshape((1, 1, 2, 3)), 1).reshape((2, 3))
        if c["body"] == "affine":
            return t * 0.9999 + 0.0001
        if c["body"] == "tanh":
            return sg.tanh(t) + 0.5
        if c["body"] == "matmul":
            return t @ w
        if c["body"] == "index":
            return t[...] * 1.0
        return t - t.mean() * 0.001

    kern = Tensor(np.full((1, 1, 3, 3), 0.1, dtype=dt))

    def loop():
        nonlocal y
        if c["body"] == "slice_shrink":
            # a queue consumed from the front: rest = rest[1:] - each step a view of the previous one
            y = Tensor(np.ones((L + 2, 3), dtype=dt), requires_grad=on_param)
            for _ in range(L):
                y = y[1:].detach() if c["mode"] == "tracked_detach" else y[1:]
                refs.append(weakref.ref(y))
            return
        for _ in range(L):
            y = body(y)
            if c["mode"] == "tracked_detach":
                # each step is recorded (the operands require grad) and then cut off: state = f(state).detach()
                y = (y * 1.0).detach() if not y.requires_grad else y.detach()
            refs.append(weakref.ref(y))

    import contextlib
    gc.collect()
    live_before = sum(1 for o in gc.get_objects() if isinstance(o, Tensor))
    with (sg.retain_grads() if c.get("retain") else contextlib.nullcontext()):
        if c.get("retain"):
            rec.tag("inside_retain_grads")
        if c["mode"].startswith("no_grad"):
            with sg.no_grad():
                if recorded is not None:
                    recorded.backward()          # differentiating inside the block must not switch tracking back on
                loop()
        else:
            loop()
    if y.requires_grad:
        raise Violation("untracked_requires_grad", f"result of an untracked loop requires grad; {c}")
    gc.collect()
    live_after = sum(1 for o in gc.get_objects() if isinstance(o, Tensor))
    if live_after - live_before > 8:
        raise Violation("history_kept", f"{live_after - live_before} more Tensor objects are alive after an untracked loop of {L} steps "
                                        f"than before it (bounded memory: at most a handful may remain); {c}", region="live_tensors")
    alive = sum(1 for r in refs[:-1] if r() is not None)
    if alive:
        raise Violation("history_kept", f"{alive} of {L - 1} intermediate results of an untracked loop are still alive after "
                                        f"the loop (the final result keeps its operands reachable); {c}", region=c["mode"])


def subchecks():
    return [SubCheck("graphs", check_graph, lambda: graph_cases(DEPTHS_Q), quick=14, thorough=0, shards_quick=8, shards_thorough=1),
            SubCheck("graphs_deep", check_graph, lambda: graph_cases(DEPTHS_T), quick=0, thorough=100, shards_quick=1, shards_thorough=16),
            SubCheck("cost", check_cost, None, enum=enum_cost, exhaustive=True, shards_quick=8, shards_thorough=16),
            SubCheck("backward_is_local", check_local, local_cases, quick=40, thorough=400),
            SubCheck("cost_cpu_time", check_cpu_cost, cpu_cost_cases, quick=0, thorough=4, shards_quick=1, shards_thorough=1),
            SubCheck("untracked_loops", check_loop, lambda: loop_cases([10, 100, 1000, 3000]), quick=25, thorough=0, shards_quick=4),
            SubCheck("untracked_loops_long", check_loop, lambda: loop_cases([1000, 3000, 10000]), quick=0, thorough=100,
                     shards_quick=1, shards_thorough=8)]
