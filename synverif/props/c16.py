"""C16 - im2col/col2im variants agree and col2im is the exact adjoint of im2col."""
import itertools

import numpy as np
from hypothesis import strategies as st
from hypothesis.extra import numpy as hnp

from .. import gen, ref_conv as R
from ..core import SubCheck, Violation
from ..env import sg

ct = sg.conv_tools

RULE = ("cases: (N,C,H,W) x per-axis kernel/stride/dilation/padding built by construction so that at "
        "least one window exists (plus a separate no-window sub-check), int/tuple/list spellings, both "
        "layouts, arbitrary integer pad value, integer-valued x and y (all sums exact, comparisons "
        "bit-wise); random cases from Hypothesis plus an enumerated grid.  non-trivial: at least two of "
        "{stride>1, dilation>1, padding>0, non-square kernel or image, windows do not tile the input}; "
        "distinct by hash of the whole case"
        " Also: return_indices/col_indices keywords, sides around 2^8 and 2^16, the (H, W) / [H, W] output form on all three col2im variants, views over length-1 axes (stride 0 / negative) and broadcast_to views."
        " Round 5: channel and batch counts 255/256/257/300."
        " Round 6: strides 41-161 whose multiples hit the last window exactly; int64 images near 2^58 (all variants exact).")
ASSUMPTIONS = ["numpy integer-valued float arithmetic is exact below 2^24 (float32) / 2^53 (float64)",
               "the brute-force reference in synverif/ref_conv.py implements the torch.nn.Unfold/Fold definition"]


def _geom_nt(g):
    kh, kw = g["k"]; sh, sw = g["s"]; dh, dw = g["d"]; ph, pw = g["p"]
    H, W = g["H"], g["W"]
    feats = 0
    feats += (sh > 1 or sw > 1)
    feats += (dh > 1 or dw > 1)
    feats += (ph > 0 or pw > 0)
    feats += (kh != kw or H != W)
    tile_h = (H + 2 * ph - (dh * (kh - 1) + 1)) % sh != 0
    tile_w = (W + 2 * pw - (dw * (kw - 1) + 1)) % sw != 0
    feats += (tile_h or tile_w)
    return feats >= 2


@st.composite
def geom_cases(draw):
    a = draw(gen.axis_geom())
    b = draw(gen.axis_geom())
    N = draw(st.integers(1, 3)); C = draw(st.integers(1, 3))
    g = {"N": N, "C": C, "H": a["L"], "W": b["L"],
         "k": [a["k"], b["k"]], "s": [a["s"], b["s"]], "d": [a["d"], b["d"]], "p": [a["p"], b["p"]]}
    g["spell"] = {key: draw(st.sampled_from(["int", "tuple", "list"])) for key in "ksdp"}
    g["pad_value"] = draw(st.integers(-5, 5))
    g["dtype"] = draw(st.sampled_from(["float64", "float32"]))
    g["layout"] = draw(st.sampled_from(["C", "C", "F", "strided", "neg_strided"]))
    g["pow2"] = draw(st.sampled_from([0, 0, 0, -30, -60, 20]))       # values are scaled by 2**pow2: still exact
    n = N * C * g["H"] * g["W"]
    g["x"] = draw(hnp.arrays(np.int8, (n,), elements=st.integers(-9, 9), fill=st.nothing())).tolist()
    g["y"] = draw(hnp.arrays(np.int8, (48,), elements=st.integers(-9, 9), fill=st.nothing())).tolist()
    return g


def _sp(g, key):
    a, b = g[key]
    kind = g.get("spell", {}).get(key, "tuple")
    if kind == "int" and a == b:
        return int(a)
    if kind == "list":
        return [int(a), int(b)]
    return (int(a), int(b))


def _eq(name, got, want, g):
    got = np.asarray(got)
    if got.shape != want.shape:
        raise Violation("shape", f"{name}: shape {got.shape} != reference {want.shape}; geometry={_gs(g)}")
    if not np.array_equal(got, want):
        bad = np.argwhere(got != want)[0].tolist()
        raise Violation("value", f"{name}: differs from reference at {bad}: got {got[tuple(bad)]} "
                                 f"want {want[tuple(bad)]}; geometry={_gs(g)}")


def _gs(g):
    return {k: g[k] for k in ("N", "C", "H", "W", "k", "s", "d", "p", "pad_value", "spell", "dtype") if k in g}


def _call(name, fn, *a, **kw):
    try:
        return fn(*a, **kw)
    except Exception as e:  # noqa: BLE001
        raise Violation("raised", f"{name} raised {type(e).__name__}: {e}", region=name)


def check_geom(g, rec):
    dt = np.dtype(g.get("dtype", "float64"))
    N, C, H, W = g["N"], g["C"], g["H"], g["W"]
    from ..ops import _layout
    sc = 2.0 ** g.get("pow2", 0)
    x = _layout((np.asarray(g["x"], dtype=np.float64) * sc).astype(dt).reshape(N, C, H, W), g.get("layout", "C"))
    if g.get("view"):
        x = _special_view(x, g["view"])
        rec.tag("view_" + g["view"])
    g = dict(g, y=[v * sc for v in g["y"]])
    if g.get("pow2", 0):
        rec.tag("scaled_values")
    if g.get("layout", "C") != "C":
        rec.tag("noncontiguous_input")
    k, s, d, p = g["k"], g["s"], g["d"], g["p"]
    K, S, D, P = _sp(g, "k"), _sp(g, "s"), _sp(g, "d"), _sp(g, "p")
    pv = g.get("pad_value", 0)
    rec.nontrivial(_geom_nt(g))
    for key in "ksdp":
        if g.get("spell", {}).get(key) == "int" and g[key][0] == g[key][1]:
            rec.tag("int_spelling")
            break
    if pv != 0:
        rec.tag("pad_value_nonzero")

    ref3 = R.unfold_ref(x, k, d, s, p, pv)          # (N, CkHkW, L)
    L = ref3.shape[2]
    rows = ref3.shape[1]
    # ---- im2col, unfold layout --------------------------------------------------------------
    outs3 = {}
    for name, fn in (("im2col", ct.im2col), ("im2col_v2", ct.im2col_v2), ("im2col_fast", ct.im2col_fast)):
        o = _call(name, fn, x, K, D, S, P, pv, as_unfold=True)
        _eq(name + "[unfold-layout]", o, ref3, g)
        outs3[name] = o
    # ---- im2col, 2-D column layout: the three agree, shape (CkHkW, N*L), and each row is a
    #      rearrangement of the same row of the 3-D layout (column convention not prescribed) -----
    outs2 = {}
    for name, fn in (("im2col", ct.im2col), ("im2col_v2", ct.im2col_v2), ("im2col_fast", ct.im2col_fast)):
        o = np.asarray(_call(name, fn, x, K, D, S, P, pv, as_unfold=False))
        if o.shape != (rows, N * L):
            raise Violation("shape", f"{name}[2-D layout]: shape {o.shape} != {(rows, N * L)}; geometry={_gs(g)}")
        outs2[name] = o
    base = outs2["im2col"]
    for name in ("im2col_v2", "im2col_fast"):
        if not np.array_equal(outs2[name], base):
            raise Violation("disagree", f"{name} != im2col in the 2-D layout; geometry={_gs(g)}")
    want_rows = np.sort(ref3.transpose(1, 0, 2).reshape(rows, -1), axis=1)
    if not np.array_equal(np.sort(base, axis=1), want_rows):
        raise Violation("value", f"im2col[2-D layout]: rows are not rearrangements of the unfold rows; geometry={_gs(g)}")

    # ---- col2im family ----------------------------------------------------------------------
    y3 = _layout(gen.cyc(g["y"], (N, rows, L), dt), g.get("layout", "C"))
    fold_want = R.fold_ref(y3, (H, W), k, d, s, p, C)
    for shape_arg in ((N, C, H, W),):
        for name, fn in (("col2im", ct.col2im), ("col2im_v2", ct.col2im_v2), ("col2im_fast", ct.col2im_fast)):
            o = _call(name, fn, y3, shape_arg, K, D, S, P)
            _eq(name + "[fold-layout]", o, fold_want, g)
    y2 = _layout(gen.cyc(g["y"][::-1], (rows, N * L), dt), g.get("layout", "C"))
    c2 = {}
    for name, fn in (("col2im", ct.col2im), ("col2im_v2", ct.col2im_v2), ("col2im_fast", ct.col2im_fast)):
        c2[name] = np.asarray(_call(name, fn, y2, (N, C, H, W), K, D, S, P))
        if c2[name].shape != (N, C, H, W):
            raise Violation("shape", f"{name}[2-D layout] shape {c2[name].shape}; geometry={_gs(g)}")
    for name in ("col2im_v2", "col2im_fast"):
        if not np.array_equal(c2[name], c2["col2im"]):
            raise Violation("disagree", f"{name} != col2im in the 2-D layout; geometry={_gs(g)}")

    # ---- the index-based pair's documented keywords: return_indices / col_indices -------------------
    for as_unfold, want_cols in ((True, outs3["im2col"]), (False, outs2["im2col"])):
        r = _call("im2col(return_indices=True)", ct.im2col, x, K, D, S, P, pv, return_indices=True, as_unfold=as_unfold)
        if not (isinstance(r, tuple) and len(r) == 2):
            raise Violation("shape", f"im2col(return_indices=True) did not return (cols, col_indices); geometry={_gs(g)}")
        _eq("im2col(return_indices=True)[0]", r[0], np.asarray(want_cols), g)
        o = _call("im2col(col_indices=...)", ct.im2col, x, K, D, S, P, pv, col_indices=r[1], as_unfold=as_unfold)
        _eq("im2col(col_indices=given)", o, np.asarray(want_cols), g)
        idx = r[1]
    r = _call("col2im(return_indices=True)", ct.col2im, y3, (N, C, H, W), K, D, S, P, return_indices=True)
    if not (isinstance(r, tuple) and len(r) == 2):
        raise Violation("shape", f"col2im(return_indices=True) did not return (image, col_indices); geometry={_gs(g)}")
    _eq("col2im(return_indices=True)[0]", r[0], fold_want, g)
    _eq("col2im(col_indices=given)", _call("col2im(col_indices=...)", ct.col2im, y3, (N, C, H, W), K, D, S, P, col_indices=idx),
        fold_want, g)
    _eq("col2im(col_indices=its own)", _call("col2im(col_indices=...)", ct.col2im, y3, (N, C, H, W), K, D, S, P, col_indices=r[1]),
        fold_want, g)

    # ---- adjoint identity (pad value 0): <im2col(x), y> == <x, col2im(y)>, exact ----------------
    x64 = x.astype(np.float64)
    for name, fn in (("im2col", ct.im2col), ("im2col_v2", ct.im2col_v2), ("im2col_fast", ct.im2col_fast)):
        i3 = np.asarray(_call(name, fn, x, K, D, S, P, 0, as_unfold=True)).astype(np.float64)
        i2 = np.asarray(_call(name, fn, x, K, D, S, P, 0, as_unfold=False)).astype(np.float64)
        lhs3 = float((i3 * y3.astype(np.float64)).sum())
        lhs2 = float((i2 * y2.astype(np.float64)).sum())
        for cname in c2:
            rhs2 = float((x64 * c2[cname].astype(np.float64)).sum())
            if lhs2 != rhs2:
                raise Violation("adjoint", f"<{name}(x),y> = {lhs2} != <x,{cname}(y)> = {rhs2} (2-D layout); geometry={_gs(g)}")
        rhs3 = float((x64 * fold_want.astype(np.float64)).sum())
        if lhs3 != rhs3:
            raise Violation("adjoint", f"<{name}(x),y> = {lhs3} != <x,fold(y)> = {rhs3}; geometry={_gs(g)}")

    # ---- fold(unfold(x)) == x * count -------------------------------------------------------
    cnt = R.cover_count((N, C, H, W), k, d, s, p)
    want = x64 * cnt[None, None]
    un0 = np.asarray(ct.im2col_fast(x, K, D, S, P, 0, as_unfold=True))
    un0_2 = np.asarray(ct.im2col(x, K, D, S, P, 0, as_unfold=False))
    for name, fn in (("col2im", ct.col2im), ("col2im_v2", ct.col2im_v2), ("col2im_fast", ct.col2im_fast)):
        o = np.asarray(_call(name, fn, un0, (N, C, H, W), K, D, S, P)).astype(np.float64)
        _eq(f"{name}(im2col(x)) vs x*count", o, want, g)
        o = np.asarray(_call(name, fn, un0_2, (N, C, H, W), K, D, S, P)).astype(np.float64)
        _eq(f"{name}(im2col(x)) vs x*count [2-D layout]", o, want, g)
    # fold form: output size given as (H, W) with the 3-D layout - all three variants implement it
    for name, fn in (("col2im", ct.col2im), ("col2im_v2", ct.col2im_v2), ("col2im_fast", ct.col2im_fast)):
        o = np.asarray(_call(f"{name}(output_shape=(H,W))", fn, un0, (H, W), K, D, S, P)).astype(np.float64)
        _eq(f"{name}(output_shape=(H,W))", o, want, g)
        o = np.asarray(_call(f"{name}(output_shape=[H,W])", fn, y3, [H, W], K, D, S, P))
        _eq(f"{name}(y, output_shape=[H,W])", o, fold_want, g)

    # ---- sliding-window extractor and placement ---------------------------------------------
    wref = R.windows2d_ref(x, k, s, p, d, pv)
    w = _call("extract_windows", ct.extract_windows, x, K, S, P, D, pv)
    _eq("extract_windows", w, wref, g)
    yw = _layout(gen.cyc(g["y"], wref.shape, dt), g.get("layout", "C"))
    pl = _call("place_windows", ct.place_windows, yw, (N, C, H, W), K, S, P, D)
    _eq("place_windows", pl, R.place2d_ref(yw, (N, C, H, W), k, s, p, d), g)


def _special_view(arr, kind):
    """views whose strides are unusual although NumPy may flag them contiguous (length-1 axes), or that repeat memory"""
    N, C, H, W = arr.shape
    if kind == "newaxis_last" and W == 1:
        return np.ascontiguousarray(arr[..., 0])[..., None]                 # stride 0 on the last axis
    if kind == "newaxis_h" and H == 1:
        return np.ascontiguousarray(arr[:, :, 0, :])[:, :, None, :]
    if kind == "reversed_last":
        return np.ascontiguousarray(arr[..., ::-1])[..., ::-1]              # negative stride (also when W == 1)
    if kind == "reversed_h":
        return np.ascontiguousarray(arr[:, :, ::-1, :])[:, :, ::-1, :]
    if kind == "broadcast_w":
        return np.broadcast_to(arr[..., :1], arr.shape)                     # stride 0 over a real axis, read-only
    if kind == "broadcast_n":
        return np.broadcast_to(arr[:1], arr.shape)
    return arr


@st.composite
def degenerate_view_cases(draw):
    """an axis of length 1 (kernel 1 there, no padding at all) or repeated memory, reached through a view"""
    a = draw(gen.axis_geom(pmax=0))
    one = {"L": 1, "k": 1, "s": draw(st.integers(1, 2)), "d": draw(st.integers(1, 2)), "p": 0}
    which = draw(st.sampled_from(["w1", "w1", "h1", "both1", "plain"]))
    ax_h, ax_w = {"w1": (a, one), "h1": (one, a), "both1": (one, dict(one)), "plain": (a, draw(gen.axis_geom(pmax=1)))}[which]
    N = draw(st.integers(1, 3)); C = draw(st.integers(1, 3))
    g = {"N": N, "C": C, "H": ax_h["L"], "W": ax_w["L"], "k": [ax_h["k"], ax_w["k"]], "s": [ax_h["s"], ax_w["s"]],
         "d": [ax_h["d"], ax_w["d"]], "p": [ax_h["p"], ax_w["p"]],
         "spell": {key: draw(st.sampled_from(["int", "tuple", "list"])) for key in "ksdp"},
         "pad_value": draw(st.integers(-5, 5)), "dtype": draw(st.sampled_from(["float64", "float32"])), "layout": "C", "pow2": 0,
         "view": draw(st.sampled_from(["newaxis_last", "newaxis_h", "reversed_last", "reversed_h", "broadcast_w", "broadcast_n"]))}
    n = N * C * g["H"] * g["W"]
    g["x"] = draw(hnp.arrays(np.int8, (n,), elements=st.integers(-9, 9), fill=st.nothing())).tolist()
    g["y"] = draw(hnp.arrays(np.int8, (48,), elements=st.integers(-9, 9), fill=st.nothing())).tolist()
    return g


@st.composite
def long_side_cases(draw, big=False):
    """one side just below / at / above 2^8 (big: 2^16) - where a narrow index or size type would wrap -, the other tiny"""
    L = draw(st.integers(65530, 65540)) if big else draw(st.integers(250, 262))
    other = draw(st.integers(1, 3))
    kl = draw(st.integers(1, 3)); ko = draw(st.integers(1, other))
    a = {"L": L, "k": kl, "s": draw(st.sampled_from([1, 1, 2, 3])), "d": draw(st.sampled_from([1, 1, 2])), "p": draw(st.integers(0, 3))}
    b = {"L": other, "k": ko, "s": draw(st.integers(1, 2)), "d": 1, "p": draw(st.integers(0, 1))}
    if draw(st.booleans()):
        a, b = b, a
    g = {"N": 1, "C": draw(st.integers(1, 2)), "H": a["L"], "W": b["L"],
         "k": [a["k"], b["k"]], "s": [a["s"], b["s"]], "d": [a["d"], b["d"]], "p": [a["p"], b["p"]],
         "spell": {}, "pad_value": draw(st.integers(-5, 5)), "dtype": draw(st.sampled_from(["float64", "float32"])),
         "layout": "C", "pow2": 0, "x_seed": draw(st.integers(0, 10 ** 6))}
    g["y"] = draw(hnp.arrays(np.int8, (48,), elements=st.integers(-9, 9), fill=st.nothing())).tolist()
    return g


@st.composite
def many_channel_cases(draw):
    """channel (and batch) counts around 2^8: the third place where a narrow index type would wrap"""
    a = draw(gen.axis_geom(kmax=2, smax=2, dmax=2, pmax=1, extra_max=1))
    b = draw(gen.axis_geom(kmax=2, smax=2, dmax=2, pmax=1, extra_max=1))
    many_c = draw(st.booleans())
    big = draw(st.sampled_from([255, 256, 257, 300]))
    g = {"N": 1 if many_c else big, "C": big if many_c else draw(st.integers(1, 2)), "H": a["L"], "W": b["L"],
         "k": [a["k"], b["k"]], "s": [a["s"], b["s"]], "d": [a["d"], b["d"]], "p": [a["p"], b["p"]],
         "spell": {}, "pad_value": draw(st.integers(-5, 5)), "dtype": draw(st.sampled_from(["float64", "float32"])),
         "layout": "C", "pow2": 0, "x_seed": draw(st.integers(0, 10 ** 6))}
    g["y"] = draw(hnp.arrays(np.int8, (48,), elements=st.integers(-9, 9), fill=st.nothing())).tolist()
    return g


@st.composite
def large_stride_cases(draw):
    """strides of 40-170 whose multiples hit the last window exactly: the window count is floor(span/stride)+1 in
    exact integer arithmetic, whatever floating-point shortcut computes it"""
    s = draw(st.sampled_from([41, 49, 49, 98, 103, 107, 161, 64, 127]))
    m = draw(st.integers(1, 4))
    k = draw(st.integers(1, 3))
    d = draw(st.integers(1, 2))
    p = draw(st.integers(0, 1))
    span = m * s + draw(st.sampled_from([0, 0, 0, -1, 1]))
    L = span + d * (k - 1) + 1 - 2 * p
    a = {"L": max(L, d * (k - 1) + 1), "k": k, "s": s, "d": d, "p": p}
    b = {"L": draw(st.integers(1, 2)), "k": 1, "s": 1, "d": 1, "p": 0}
    if draw(st.booleans()):
        a, b = b, a
    g = {"N": 1, "C": 1, "H": a["L"], "W": b["L"], "k": [a["k"], b["k"]], "s": [a["s"], b["s"]], "d": [a["d"], b["d"]],
         "p": [a["p"], b["p"]], "spell": {}, "pad_value": draw(st.integers(-5, 5)), "dtype": draw(st.sampled_from(["float64", "float32"])),
         "layout": "C", "pow2": 0, "x_seed": draw(st.integers(0, 10 ** 6))}
    g["y"] = draw(hnp.arrays(np.int8, (48,), elements=st.integers(-9, 9), fill=st.nothing())).tolist()
    return g


@st.composite
def int64_cases(draw):
    """integer images / column matrices near 2^58: every variant is pure data movement and integer addition, so all of
    them - and the adjoint / fold(unfold) identities - are exact; a detour through float64 is not"""
    a = draw(gen.axis_geom(kmax=3, smax=2, dmax=2, pmax=1, extra_max=2))
    b = draw(gen.axis_geom(kmax=3, smax=2, dmax=2, pmax=1, extra_max=2))
    return {"N": draw(st.integers(1, 2)), "C": draw(st.integers(1, 2)), "H": a["L"], "W": b["L"], "k": [a["k"], b["k"]], "s": [a["s"], b["s"]],
            "d": [a["d"], b["d"]], "p": [a["p"], b["p"]], "seed": draw(st.integers(0, 10 ** 6)), "shift": draw(st.sampled_from([58, 57, 55, 60]))}


def check_int64(g, rec):
    N, C, H, W = g["N"], g["C"], g["H"], g["W"]
    k, s, d, p = g["k"], g["s"], g["d"], g["p"]
    K, S, D, P = tuple(k), tuple(s), tuple(d), tuple(p)
    n = N * C * H * W
    i = np.arange(n, dtype=np.int64)
    big = np.int64(1) << np.int64(g["shift"])
    x = (((i * 7 + g["seed"]) % 5 - 2) * big // 8 + ((i * 13 + g["seed"]) % 11 - 5)).reshape(N, C, H, W)      # k*2^55 + small odd offsets
    rec.nontrivial(True)
    cols = {}
    for name, fn in (("im2col", ct.im2col), ("im2col_v2", ct.im2col_v2), ("im2col_fast", ct.im2col_fast)):
        cols[name] = np.asarray(_call(name, fn, x, K, D, S, P, 0, as_unfold=True))
        if cols[name].dtype != np.int64:
            raise Violation("dtype", f"{name} of an int64 image returned {cols[name].dtype}; geometry={g}")
    for name in ("im2col_v2", "im2col_fast"):
        if not np.array_equal(cols[name], cols["im2col"]):
            raise Violation("disagree", f"{name} != im2col on an int64 image; geometry={g}")
    cnt = R.cover_count((N, C, H, W), k, d, s, p).astype(np.int64)
    want = x * cnt[None, None]                                   # exact in int64 (|x| < 2^59, count <= 9)
    for name, fn in (("col2im", ct.col2im), ("col2im_v2", ct.col2im_v2), ("col2im_fast", ct.col2im_fast)):
        o = np.asarray(_call(name, fn, cols["im2col"], (N, C, H, W), K, D, S, P))
        if o.shape != want.shape or not np.array_equal(o.astype(np.int64), want):
            bad = np.argwhere(o.astype(np.int64) != want)[0].tolist() if o.shape == want.shape else None
            raise Violation("value", f"{name}(im2col(x)) != x*count for an int64 image near 2^{g['shift']} (first difference at {bad}: "
                                     f"{o[tuple(bad)] if bad else o.shape} vs {want[tuple(bad)] if bad else want.shape}); geometry={g}", region="int64")


def check_long_side(g, rec):
    n = g["N"] * g["C"] * g["H"] * g["W"]
    i = np.arange(n, dtype=np.int64)
    g = dict(g, x=(((i * 7 + g["x_seed"]) * 2654435761 >> 7) % 19 - 9).tolist())
    rec.tag("side_near_2^16" if max(g["H"], g["W"]) > 1000 else ("large_stride" if max(g["s"]) > 30 else "side_near_2^8" if max(g["H"], g["W"]) > 100 else
                                                                  ("channels_near_2^8" if g["C"] > 100 else "batch_near_2^8")))
    check_geom(g, rec)
    rec.nontrivial(True)


@st.composite
def geom1d_cases(draw):
    a = draw(gen.axis_geom())
    N = draw(st.integers(1, 3)); C = draw(st.integers(1, 3))
    g = {"N": N, "C": C, "W": a["L"], "k": a["k"], "s": a["s"], "d": a["d"], "p": a["p"],
         "pad_value": draw(st.integers(-5, 5)), "dtype": draw(st.sampled_from(["float64", "float32"]))}
    g["x"] = draw(hnp.arrays(np.int8, (N * C * a["L"],), elements=st.integers(-9, 9), fill=st.nothing())).tolist()
    g["y"] = draw(hnp.arrays(np.int8, (24,), elements=st.integers(-9, 9), fill=st.nothing())).tolist()
    return g


def check_geom1d(g, rec):
    dt = np.dtype(g["dtype"])
    N, C, W = g["N"], g["C"], g["W"]
    k, s, d, p, pv = g["k"], g["s"], g["d"], g["p"], g["pad_value"]
    rec.nontrivial(sum([s > 1, d > 1, p > 0, (W + 2 * p - (d * (k - 1) + 1)) % s != 0]) >= 2)
    x = np.asarray(g["x"], dtype=dt).reshape(N, C, W)
    wref = R.windows1d_ref(x, k, s, p, d, pv)
    w = _call("extract_windows", ct.extract_windows, x, k, s, p, d, pv)
    _eq("extract_windows[1d]", w, wref, g)
    yw = gen.cyc(g["y"], wref.shape, dt)
    pl = _call("place_windows", ct.place_windows, yw, (N, C, W), k, s, p, d)
    want = R.place1d_ref(yw, (N, C, W), k, s, p, d)
    _eq("place_windows[1d]", pl, want, g)
    # adjoint of the 1-d pair, exact
    w0 = np.asarray(ct.extract_windows(x, k, s, p, d, 0)).astype(np.float64)
    lhs = float((w0 * yw.astype(np.float64)).sum())
    rhs = float((x.astype(np.float64) * want.astype(np.float64)).sum())
    if lhs != rhs:
        raise Violation("adjoint", f"1-d <extract(x),y>={lhs} != <x,place(y)>={rhs}; {g}")


# ---- geometries without any window must raise in all variants ----------------------------------
@st.composite
def nowindow_cases(draw):
    k = draw(st.integers(2, 4)); d = draw(st.integers(1, 3)); s = draw(st.integers(1, 3))
    span = d * (k - 1) + 1
    p = draw(st.integers(0, 1))
    assume_ok = span - 2 * p - 1
    H = draw(st.integers(1, max(1, assume_ok))) if assume_ok >= 1 else 1
    if H + 2 * p >= span:   # could not build a no-window axis with these draws: shrink padding
        p = 0
        H = max(1, span - 1)
    other = draw(gen.axis_geom())
    first = draw(st.booleans())
    g = {"N": 1, "C": draw(st.integers(1, 2))}
    bad = {"k": k, "s": s, "d": d, "p": p, "L": H}
    a, b = (bad, other) if first else (other, bad)
    g.update({"H": a["L"], "W": b["L"], "k": [a["k"], b["k"]], "s": [a["s"], b["s"]],
              "d": [a["d"], b["d"]], "p": [a["p"], b["p"]]})
    return g


def check_nowindow(g, rec):
    N, C, H, W = g["N"], g["C"], g["H"], g["W"]
    k, s, d, p = [tuple(g[q]) for q in "ksdp"]
    lh = R.out_len(H, k[0], s[0], p[0], d[0]); lw = R.out_len(W, k[1], s[1], p[1], d[1])
    if lh > 0 and lw > 0:
        rec.skip = "has_window"
        return
    rec.nontrivial(True)
    x = np.ones((N, C, H, W))
    calls = {
        "im2col": lambda: ct.im2col(x, k, d, s, p),
        "im2col_v2": lambda: ct.im2col_v2(x, k, d, s, p),
        "im2col_fast": lambda: ct.im2col_fast(x, k, d, s, p),
        "extract_windows": lambda: ct.extract_windows(x, k, s, p, d),
    }
    for name, fn in calls.items():
        try:
            out = fn()
        except Exception:  # noqa: BLE001 - any exception is a rejection
            continue
        raise Violation("accepted_no_window", f"{name} returned shape {np.asarray(out).shape} for a geometry "
                        f"without any window: {_gs(g)} (lH={lh}, lW={lw})", region=name)


# ---- enumerated grid ------------------------------------------------------------------------
def _axis_grid(Lmax, kmax, smax, pmax, dmax):
    return [(L, k, s, p, d) for L in range(1, Lmax + 1) for k in range(1, kmax + 1)
            for s in range(1, smax + 1) for p in range(0, pmax + 1) for d in range(1, dmax + 1)]


def enum_grid(tier, shard, nshards):
    ax = _axis_grid(5, 3, 3, 2, 2)
    if tier == "quick":
        N = C = 1
        stride = 37     # a deterministic slice of the product
    else:
        N = C = 2
        stride = 1
    idx = 0
    for a in ax:
        for b in ax:
            idx += 1
            if idx % nshards != shard:
                continue
            if stride > 1 and (idx // nshards) % stride != 0:
                continue
            H, kh, sh, ph, dh = a
            W, kw, sw, pw, dw = b
            lh = R.out_len(H, kh, sh, ph, dh); lw = R.out_len(W, kw, sw, pw, dw)
            g = {"N": N, "C": C, "H": H, "W": W, "k": [kh, kw], "s": [sh, sw], "d": [dh, dw],
                 "p": [ph, pw], "pad_value": 0, "dtype": "float64", "enum": True}
            if lh <= 0 or lw <= 0:
                continue     # C16 quantifies over geometries with at least one window
            else:
                n = N * C * H * W
                g["x"] = [((7 * i * i + 3 * i) % 13) - 6 for i in range(n)]
                g["y"] = [((5 * i * i + i) % 11) - 5 for i in range(48)]
            yield g


def check_enum(g, rec):
    check_geom(g, rec)


def subchecks():
    return [
        SubCheck("geom2d", check_geom, geom_cases, quick=300, thorough=700, shards_quick=8, shards_thorough=16),
        SubCheck("degenerate_views", check_geom, degenerate_view_cases, quick=300, thorough=3000, shards_quick=2, shards_thorough=4),
        SubCheck("large_stride", check_long_side, large_stride_cases, quick=60, thorough=800, shards_quick=4, shards_thorough=8),
        SubCheck("int64_exact", check_int64, int64_cases, quick=200, thorough=2000, shards_quick=2, shards_thorough=4),
        SubCheck("many_channels", check_long_side, many_channel_cases, quick=24, thorough=300, shards_quick=4, shards_thorough=8),
        SubCheck("long_side", check_long_side, long_side_cases, quick=48, thorough=600, shards_quick=4, shards_thorough=8),
        SubCheck("long_side_2^16", check_long_side, lambda: long_side_cases(big=True), quick=2, thorough=6, shards_quick=4,
                 shards_thorough=8),
        SubCheck("geom1d", check_geom1d, geom1d_cases, quick=300, thorough=3000, shards_quick=1, shards_thorough=2),
        SubCheck("grid", check_enum, None, enum=enum_grid, exhaustive=True, shards_quick=8, shards_thorough=16),
    ]
