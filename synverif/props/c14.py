"""C14 - fused operations equal the compositions their documentation equates them with."""
import numpy as np
from hypothesis import strategies as st

from .. import gen, nnops, ops, ref_conv as R
from ..core import SubCheck, Violation
from ..env import sg

Tensor = sg.Tensor
nn = sg.nn
F = sg.nn.functional

RULE = ("cases: for each documented identity, operands from the generators of the corresponding op (shapes, "
        "geometries, labels/targets, both dtypes) and an arbitrary upstream gradient; both sides are built from "
        "synapgrad only, on separate copies of the leaves; outputs and every operand's gradient must agree (1e-9 "
        "relative in float64, 1e-6 for the loss identities, 2e-4 in float32).  non-trivial: as the underlying op's "
        "predicate and both sides executed without exception and output has >= 2 elements; distinct by hash"
        " Also: Sequential with repeated module instances and with a stage replaced after a first call; mean = sum/count incl. dim=() and NumPy-integer dims."
        " Round 5: both sides of every identity are differentiated a second time with another upstream gradient."
        " Round 7: Sequentials of up to 14 positional stages; the BCE identity with the target as a leaf that requires grad.")
ASSUMPTIONS = ["moderate logits (|x| <= 8) for the sigmoid/BCE and log(softmax) pairs, as the statement says",
               "both sides are synapgrad computations; no external reference is involved"]


def run_identity(name, case, rec, lhs, rhs, loose=False, nt=True):
    dt = np.dtype(case["dtype"])
    arrs = [ops._layout(gen.arr(x["v"], x["shape"], dt), case.get("layout", "C")) for x in case["xs"]]
    ctx = f"identity={name} shapes={[x['shape'] for x in case['xs']]} args={case['args']} dtype={case['dtype']}"
    sides = []
    for fn in (lhs, rhs):
        leaves = [Tensor(ops._layout(np.array(a), case.get("layout", "C")), requires_grad=True) for a in arrs]
        try:
            out = fn(leaves, case["args"])
        except Exception as e:  # noqa: BLE001
            sides.append(("raised", e, leaves))
            continue
        sides.append(("ok", out, leaves))
    if sides[0][0] == "raised" and sides[1][0] == "raised":
        rec.skip = "both_sides_rejected"
        return
    if sides[0][0] != sides[1][0]:
        k = 0 if sides[0][0] == "raised" else 1
        raise Violation("one_side_raised", f"{'fused form' if k == 0 else 'composition'} raised "
                                           f"{type(sides[k][1]).__name__}: {sides[k][1]} while the other side returned; {ctx}")
    (_, o1, l1), (_, o2, l2) = sides
    tol = (1e-6 if loose else 1e-9) if dt == np.float64 else 2e-4
    a, b = np.asarray(o1.data, dtype=np.float64), np.asarray(o2.data, dtype=np.float64)
    if a.shape != b.shape:
        raise Violation("shape", f"fused output shape {a.shape} != composition {b.shape}; {ctx}")
    scale = max(1.0, float(np.abs(b).max()) if b.size else 1.0)
    if a.size and (not np.all(np.isfinite(a)) or np.abs(a - b).max() > tol * scale):
        raise Violation("value", f"outputs differ by {np.abs(a - b).max():.3e}: fused {a.ravel()[:4].tolist()} vs "
                                 f"composition {b.ravel()[:4].tolist()}; {ctx}")
    g = gen.cyc(case["g"], a.shape, dt)
    rec.nontrivial(nt and a.size >= 2)
    errs = []
    again = bool(case.get("again"))       # both sides are differentiated a second time with another upstream gradient
    if again:
        rec.tag("second_backward_with_another_g")
    for o in (o1, o2):
        try:
            if o.requires_grad:
                o.backward(Tensor(g.copy()))
                if again:
                    o.backward(Tensor((g[..., ::-1] * 0.5 + 0.25).copy() if g.ndim else (g * 0.5 + 0.25).copy()))
            errs.append(None)
        except Exception as e:  # noqa: BLE001
            errs.append(e)
    if errs[0] is not None and errs[1] is not None:
        rec.skip = "both_backward_raised"
        return
    if errs[0] is not None or errs[1] is not None:
        k = 0 if errs[0] is not None else 1
        raise Violation("backward_one_side_raised", f"backward of the {'fused form' if k == 0 else 'composition'} raised "
                                                    f"{type(errs[k]).__name__}: {errs[k]} while the other side completed; {ctx}")
    for i, (p, q) in enumerate(zip(l1, l2)):
        gp, gq = p.grad, q.grad
        if (gp is None) != (gq is None):
            raise Violation("grad_presence", f"operand {i}: gradient present on one side only; {ctx}")
        if gp is None:
            continue
        ga, gb = np.asarray(gp.data, dtype=np.float64), np.asarray(gq.data, dtype=np.float64)
        gs = max(1.0, float(np.abs(gb).max()) if gb.size else 1.0)
        if ga.shape != gb.shape or (ga.size and (not np.all(np.isfinite(ga)) or np.abs(ga - gb).max() > 10 * tol * gs)):
            raise Violation("grad", f"operand {i}: gradients differ by "
                                    f"{np.abs(ga - gb).max() if ga.shape == gb.shape else 'shape'}: fused "
                                    f"{ga.ravel()[:4].tolist()} vs composition {gb.ravel()[:4].tolist()}; {ctx}")


def _labels(args, n=None):
    return Tensor(np.array(args["labels"], dtype=np.int64))


def _target(args, like):
    return Tensor(np.array(args["target"], dtype=like.dtype).reshape(like.shape))


# ---- identity definitions: (name, strategy factory, lhs, rhs, loose) ---------------------------------
@st.composite
def common(draw, body):
    c = draw(body)
    c["dtype"] = draw(gen.DTYPES)
    c["g"] = draw(gen.upstream())
    c["layout"] = draw(st.sampled_from(["C", "C", "C", "F", "strided"]))
    c["again"] = draw(st.sampled_from([False, False, True]))
    return c


def _ce_gen():
    return common(nnops.gen_loss("ce"))


def _bce_gen():
    return common(nnops.gen_loss("bce_logits"))


IDENTITIES = []


def ident(name, strat, loose=False):
    def deco(pair):
        IDENTITIES.append((name, strat, pair[0], pair[1], loose))
        return pair
    return deco


ident("cross_entropy=nll(log_softmax)", _ce_gen, loose=True)((
    lambda l, a: F.cross_entropy(l[0], _labels(a)),
    lambda l, a: F.nll_loss(F.log_softmax(l[0], 1), _labels(a))))

ident("CrossEntropyLoss=NLLLoss(LogSoftmax)", _ce_gen, loose=True)((
    lambda l, a: nn.CrossEntropyLoss(reduction=a.get("reduction", "mean"))(l[0], _labels(a)),
    lambda l, a: nn.NLLLoss(reduction=a.get("reduction", "mean"))(nn.LogSoftmax(1)(l[0]), _labels(a))))

def _target_leaf(a, l):
    # the target as a second LEAF that requires grad (learned soft labels): both forms must leave the same gradient on it
    return l[1]


@st.composite
def _bce_target_leaf_gen(draw):
    c = draw(nnops.gen_loss("bce_logits"))
    shp = c["xs"][0]["shape"]
    n = int(np.prod(shp)) if shp else 1
    c["xs"].append(ops.X(shp, [draw(st.integers(1, 7)) / 8.0 for _ in range(n)]))
    return c


ident("bce_with_logits=bce(sigmoid) [target requires grad]", lambda: common(_bce_target_leaf_gen()), loose=True)((
    lambda l, a: F.binary_cross_entropy_with_logits(l[0], l[1]),
    lambda l, a: F.binary_cross_entropy(F.sigmoid(l[0]), l[1])))

ident("bce_with_logits=bce(sigmoid)", _bce_gen, loose=True)((
    lambda l, a: F.binary_cross_entropy_with_logits(l[0], _target(a, l[0])),
    lambda l, a: F.binary_cross_entropy(F.sigmoid(l[0]), _target(a, l[0]))))

ident("log_softmax=log(softmax)", lambda: common(nnops.gen_softmax(levels=False)), loose=True)((
    lambda l, a: F.log_softmax(l[0], a["dim"]),
    lambda l, a: F.softmax(l[0], a["dim"]).log()))

ident("linear=x@W.T+b", lambda: common(nnops.gen_linear()))((
    lambda l, a: F.linear(l[0], l[1], l[2] if a["bias"] else None),
    lambda l, a: (l[0] @ l[1].transpose(0, 1) + l[2]) if a["bias"] else l[0] @ l[1].transpose(0, 1)))

ident("addmm=a+b@c", lambda: common(ops.gen_addmm()))((
    lambda l, a: sg.addmm(l[0], l[1], l[2]),
    lambda l, a: l[0] + l[1] @ l[2]))


def _conv2d_as_unfold(l, a):
    x, w = l[0], l[1]
    s, p, d = (gen.realize(a[k]) for k in "spd")
    Co, Ci, kh, kw = w.shape
    unf = F.unfold(x, (kh, kw), d, s, p)                    # (N, Ci*kh*kw, L)
    out = w.reshape((Co, Ci * kh * kw)) @ unf               # (N, Co, L)
    H, W = x.shape[2], x.shape[3]
    sp, pp, dp = R.pair(s), R.pair(p), R.pair(d)
    lh = R.out_len(H, kh, sp[0], pp[0], dp[0]); lw = R.out_len(W, kw, sp[1], pp[1], dp[1])
    out = out.reshape((x.shape[0], Co, lh, lw))
    if a["bias"]:
        out = out + l[2].reshape((1, Co, 1, 1))
    return out


ident("conv2d=W_flat@unfold(x)", lambda: common(nnops.gen_conv(2)))((
    lambda l, a: F.conv2d(l[0], l[1], l[2] if a["bias"] else None, gen.realize(a["s"]), gen.realize(a["p"]), gen.realize(a["d"])),
    _conv2d_as_unfold))

ident("conv1d=conv2d(height-1 image)", lambda: common(nnops.gen_conv(1)))((
    lambda l, a: F.conv1d(l[0], l[1], l[2] if a["bias"] else None, a["s"], a["p"], a["d"]),
    lambda l, a: F.conv2d(l[0].unsqueeze(2), l[1].unsqueeze(2), l[2] if a["bias"] else None, (1, a["s"]), (0, a["p"]),
                          (1, a["d"])).squeeze(2)))


def _pool_as_unfold(mode):
    def f(l, a):
        x = l[0]
        k, s, p, d = (gen.realize(a[q]) for q in "kspd")
        kp, sp, pp, dp = R.pair(k), R.pair(s), R.pair(p), R.pair(d)
        N, C, H, W = x.shape
        unf = F.unfold(x, kp, dp, sp, pp, pad_value=-np.inf if mode == "max" else 0)
        lh = R.out_len(H, kp[0], sp[0], pp[0], dp[0]); lw = R.out_len(W, kp[1], sp[1], pp[1], dp[1])
        win = unf.reshape((N, C, kp[0] * kp[1], lh * lw))
        red = win.max(2) if mode == "max" else win.mean(2)
        return red.reshape((N, C, lh, lw))
    return f


ident("max_pool2d=max(unfold windows)", lambda: common(nnops.gen_pool(2, "max")))((
    lambda l, a: F.max_pool2d(l[0], *(gen.realize(a[q]) for q in "kspd")), _pool_as_unfold("max")))
ident("avg_pool2d=mean(unfold windows)", lambda: common(nnops.gen_pool(2, "avg")))((
    lambda l, a: F.avg_pool2d(l[0], *(gen.realize(a[q]) for q in "kspd")), _pool_as_unfold("avg")))


def _pool1d_as_unfold(mode):
    def f(l, a):
        x = l[0]
        k, s_, p, d = a["k"], a["s"], a["p"], a["d"]
        N, C, W = x.shape
        unf = F.unfold(x.unsqueeze(2), (1, k), (1, d), (1, s_), (0, p), pad_value=-np.inf if mode == "max" else 0)
        lw = R.out_len(W, k, s_, p, d)
        win = unf.reshape((N, C, k, lw))
        return win.max(2) if mode == "max" else win.mean(2)
    return f


ident("max_pool1d=max(unfold windows)", lambda: common(nnops.gen_pool(1, "max")))((
    lambda l, a: F.max_pool1d(l[0], a["k"], a["s"], a["p"], a["d"]), _pool1d_as_unfold("max")))
ident("avg_pool1d=mean(unfold windows)", lambda: common(nnops.gen_pool(1, "avg")))((
    lambda l, a: F.avg_pool1d(l[0], a["k"], a["s"], a["p"], a["d"]), _pool1d_as_unfold("avg")))


@st.composite
def _bin(draw, div=False):
    a, b = draw(gen.broadcast_shapes(2, 4, 60))
    return {"xs": [ops.X(a, draw(gen.grid(a))), ops.X(b, draw(gen.grid_away_from_zero(b, 2, 24)) if div else draw(gen.grid(b)))],
            "args": {}}


ident("a-b=a+(-b)", lambda: common(_bin()))((lambda l, a: l[0] - l[1], lambda l, a: l[0] + (-l[1])))
ident("a/b=a*b**-1", lambda: common(_bin(True)))((lambda l, a: l[0] / l[1], lambda l, a: l[0] * l[1] ** -1))


def _count(shape, dim):
    ax = ops._axes(dim, len(shape))
    n = 1
    for a_ in ax:
        n *= shape[a_]
    return n


ident("mean=sum/count", lambda: common(ops.gen_reduce()))((
    lambda l, a: l[0].mean(ops.dimval(a["dim"]), a["keepdims"]),
    lambda l, a: l[0].sum(ops.dimval(a["dim"]), a["keepdims"]) / float(_count(l[0].shape, a["dim"]))))

ident("stack=concat(unsqueeze)", lambda: common(ops.gen_stack()))((
    lambda l, a: sg.stack([l[i] for i in a["use"]], a["dim"]),
    lambda l, a: sg.concat([l[i].unsqueeze(a["dim"]) for i in a["use"]], a["dim"] if a["dim"] >= 0 else a["dim"])))


def _unbind_stack(l, a):
    parts = sg.unbind(sg.stack([l[i] for i in a["use"]], a["dim"]), a["dim"])
    # recombine with fixed distinct weights so that every part matters
    out = None
    for j, prt in enumerate(parts):
        term = prt * float(j + 1)
        out = term if out is None else out + term
    return out


def _unbind_stack_rhs(l, a):
    out = None
    for j, i in enumerate(a["use"]):
        term = l[i] * float(j + 1)
        out = term if out is None else out + term
    return out


ident("unbind(stack(xs))=xs", lambda: common(ops.gen_stack()))((_unbind_stack, _unbind_stack_rhs))


def _flatten_shape(shape, s, e):
    nd = len(shape)
    if nd == 0:
        return (1,)
    s, e = s % nd, e % nd
    return tuple(shape[:s]) + (int(np.prod(shape[s:e + 1])),) + tuple(shape[e + 1:])


ident("flatten=reshape", lambda: common(ops.gen_flatten()))((
    lambda l, a: l[0].flatten(a["start"], a["end"]),
    lambda l, a: l[0].reshape(_flatten_shape(l[0].shape, a["start"], a["end"]))))


@st.composite
def _adjacent(draw):
    shp = draw(gen.shapes(2, 4, 100))
    nd = len(shp)
    i = draw(st.integers(0, nd - 2))
    up = draw(st.booleans())
    src, dst = (i, i + 1) if up else (i + 1, i)
    if draw(st.booleans()):
        src -= nd
    if draw(st.booleans()):
        dst -= nd
    return {"xs": [ops.X(shp, draw(gen.grid(shp)))], "args": {"src": src, "dst": dst}}


ident("movedim(adjacent)=transpose", lambda: common(_adjacent()))((
    lambda l, a: l[0].movedim(a["src"], a["dst"]), lambda l, a: l[0].transpose(a["src"], a["dst"])))


def make_check(name, lhs, rhs, loose):
    def check(case, rec):
        rec.tag(case["dtype"])
        run_identity(name, case, rec, lhs, rhs, loose)
    return check


# ---- Neuron = Linear(n, 1);  Sequential = composition ------------------------------------------
@st.composite
def neuron_cases(draw):
    n = draw(st.integers(1, 6))
    b = draw(st.integers(1, 4))
    return {"n": n, "bias": draw(st.booleans()), "seed": draw(st.integers(0, 2 ** 31 - 1)),
            "x": draw(gen.grid([b, n])), "b": b, "g": draw(gen.upstream())}


def check_neuron(c, rec):
    rec.nontrivial(c["n"] >= 2)
    sg.manual_seed(c["seed"])
    a = nn.Neuron(c["n"], bias=c["bias"])
    sg.manual_seed(c["seed"])
    b = nn.Linear(c["n"], 1, bias=c["bias"])
    pa, pb = a.parameters(), b.parameters()
    if len(pa) != len(pb) or any(p.shape != q.shape or not np.array_equal(p.data, q.data) for p, q in zip(pa, pb)):
        raise Violation("neuron_params", f"Neuron({c['n']}) and Linear({c['n']},1) built from the same seed have different "
                                         f"parameters: {[p.shape for p in pa]} vs {[q.shape for q in pb]}")
    x = gen.arr(c["x"], [c["b"], c["n"]], np.float32)
    xa, xb = Tensor(x.copy(), requires_grad=True), Tensor(x.copy(), requires_grad=True)
    oa, ob = a(xa), b(xb)
    if oa.shape != ob.shape or not np.array_equal(oa.data, ob.data):
        raise Violation("neuron_output", f"Neuron output {oa.shape} differs from Linear(n,1) output {ob.shape}")
    g = gen.cyc(c["g"], oa.shape, np.float32)
    oa.backward(Tensor(g.copy())); ob.backward(Tensor(g.copy()))
    for p, q in zip([xa] + pa, [xb] + pb):
        if not np.array_equal(p.grad.data, q.grad.data):
            raise Violation("neuron_grad", "Neuron and Linear(n,1) gradients differ")


@st.composite
def seq_cases(draw):
    n = draw(st.sampled_from([2, 3, 4, 4, 6, 7]))        # with activations in between: up to 14 positional stages
    dims = [draw(st.integers(1, 4)) for _ in range(n + 1)]
    acts = [draw(st.sampled_from(["tanh", "relu", "sigmoid", "none"])) for _ in range(n)]
    b = draw(st.integers(1, 3))
    repeat = draw(st.booleans())
    if repeat:                     # the same module objects placed at several positions (square layers)
        dims = [dims[0]] * (n + 1)
    return {"dims": dims, "acts": acts, "seed": draw(st.integers(0, 2 ** 31 - 1)), "b": b,
            "x": draw(gen.grid_away_from_zero([b, dims[0]])), "g": draw(gen.upstream()),
            "order": draw(st.lists(st.integers(0, 7), min_size=2, max_size=6)) if repeat else None,
            # one stage swapped for another module of the same signature after a first call (it keeps its slot)
            "replace": draw(st.one_of(st.none(), st.tuples(st.integers(0, 11), st.sampled_from(["tanh", "relu", "sigmoid"]))))}


def check_seq(c, rec):
    rec.nontrivial(True)
    sg.manual_seed(c["seed"])
    layers = []
    for i, act in enumerate(c["acts"]):
        layers.append(nn.Linear(c["dims"][i], c["dims"][i + 1]))
        if act != "none":
            layers.append({"tanh": nn.Tanh, "relu": nn.ReLU, "sigmoid": nn.Sigmoid}[act]())
    if c.get("order"):
        layers = [layers[i % len(layers)] for i in c["order"]]
        rec.tag("repeated_instances" if len(set(map(id, layers))) < len(layers) else "distinct_instances")
    seq = nn.Sequential(*layers)
    x = gen.arr(c["x"], [c["b"], c["dims"][0]], np.float32)
    if c.get("replace"):
        pos = c["replace"][0] % len(layers)
        seq(Tensor(x.copy()))
        old_l = layers[pos]
        if isinstance(old_l, nn.Linear):
            new_l = nn.Linear(old_l.weight.shape[1], old_l.weight.shape[0])
        else:
            new_l = {"tanh": nn.Tanh, "relu": nn.ReLU, "sigmoid": nn.Sigmoid}[c["replace"][1]]()
        setattr(seq, str(pos), new_l)
        layers = layers[:pos] + [new_l] + layers[pos + 1:]
        rec.tag("stage_replaced_after_a_call")
    xa, xb = Tensor(x.copy(), requires_grad=True), Tensor(x.copy(), requires_grad=True)
    ob = xb
    for l in layers:
        ob = l(ob)
    try:
        oa = seq(xa)
    except Exception as e:  # noqa: BLE001 - the manual composition of the same stages just succeeded
        raise Violation("sequential_output", f"Sequential(f,g,...)(x) raised {type(e).__name__}: {e} where ...g(f(x)) is "
                                             f"defined; layers={[type(l).__name__ for l in layers]} order={c.get('order')} "
                                             f"replace={c.get('replace')}")
    if oa.shape != ob.shape or not np.array_equal(oa.data, ob.data):
        raise Violation("sequential_output", f"Sequential(f,g,...)(x) differs from ...g(f(x)); layers="
                                             f"{[type(l).__name__ for l in layers]} order={c.get('order')}")
    g = gen.cyc(c["g"], oa.shape, np.float32)
    oa.backward(Tensor(g.copy()))
    ga = [np.array(p.grad.data) for p in seq.parameters()] + [np.array(xa.grad.data)]
    seq.zero_grad()
    ob.backward(Tensor(g.copy()))
    gb = [np.array(p.grad.data) for p in seq.parameters()] + [np.array(xb.grad.data)]
    for u, v in zip(ga, gb):
        if not np.array_equal(u, v):
            raise Violation("sequential_grad", "gradients through Sequential differ from those through the manual composition")


def subchecks():
    subs = []
    heavy = ("conv2d", "max_pool2d", "avg_pool2d")
    for name, strat, lhs, rhs, loose in IDENTITIES:
        q = 150 if name.startswith(heavy) else 250
        subs.append(SubCheck(name, make_check(name, lhs, rhs, loose), strat, quick=2 * q, thorough=3000, shards_quick=1,
                             shards_thorough=4))
    subs.append(SubCheck("Neuron=Linear(n,1)", check_neuron, neuron_cases, quick=150, thorough=2000))
    subs.append(SubCheck("Sequential=composition", check_seq, seq_cases, quick=150, thorough=2000))
    return subs
