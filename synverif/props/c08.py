"""C08 - optimizers follow the published SGD/Adam/AdamW update rules on any history."""
import numpy as np
from hypothesis import strategies as st

from .. import gen
from ..core import SubCheck, Violation
from ..env import sg

Tensor = sg.Tensor
nn = sg.nn

RULE = ("histories: hyper-parameters from the accepted domains (lr, momentum, dampening, nesterov, weight_decay, "
        "maximize, betas, eps) x 1-3 parameters of rank 0-3 (float32/float64), a drawn subset frozen, one extra "
        "parameter not given to the optimizer x command lists of {backward (1-3 per step, exact gradients c_i), "
        "zero_grad, step}.  Oracle: float64 reference implementations of the SGD/Adam/AdamW pseudo-code of the "
        "PyTorch documentation; after every step parameter data equals the reference trajectory, is the same "
        "ndarray object, keeps dtype/shape; frozen / not-given parameters byte-identical; gradients untouched by "
        "step.  non-trivial: >=2 steps and (two backward calls before one step, or a step without an intervening "
        "zero_grad, or momentum with dampening/nesterov, or maximize, or weight decay with a frozen parameter); "
        "distinct by hash of the history")
ASSUMPTIONS = ["reference optimizers in this file transcribe the update rules of torch.optim.SGD/Adam/AdamW docs",
               "a step is only issued when every trainable parameter has a gradient (reached by backward or zeroed)",
               "tolerance 2e-5 (float32) / 1e-10 (float64) relative to max(1,|theta|), accumulated over <=14 steps"]


@st.composite
def histories(draw, kind):
    hp = {"lr": draw(st.sampled_from([1e-3, 0.01, 0.1, 0.5, 1.0])),
          "weight_decay": draw(st.sampled_from([0, 0, 0.01, 0.1, 0.5])),
          "maximize": draw(st.booleans())}
    if kind == "sgd":
        hp["momentum"] = draw(st.sampled_from([0, 0, 0.5, 0.9, 0.99]))
        hp["dampening"] = draw(st.sampled_from([0, 0, 0.1, 0.5]))
        hp["nesterov"] = bool(hp["momentum"] > 0 and hp["dampening"] == 0 and draw(st.booleans()))
    else:
        hp["betas"] = [draw(st.sampled_from([0.9, 0.5, 0.99, 0.1])), draw(st.sampled_from([0.999, 0.9, 0.5, 0.99]))]
        hp["eps"] = draw(st.sampled_from([1e-8, 1e-10, 1e-4, 1e-2, 0.0, 0]))
    nparams = draw(st.sampled_from([1, 2, 2, 3, 3, 5]))
    params = []
    for _ in range(nparams + 1):           # the last one is NOT given to the optimizer
        shp = draw(gen.shapes(0, 3, 8))
        params.append({"shape": shp, "v": draw(gen.grid(shp, -16, 16)), "frozen": False})
    frozen_idx = draw(st.sampled_from([None, None, 0, nparams - 1]))
    if frozen_idx is not None and nparams >= 2:
        params[frozen_idx]["frozen"] = True
    steps = []
    steps.append({"k": "backward", "c": [draw(st.integers(-16, 16)) / 8.0 for _ in range(6)],
                  "mask": draw(st.sampled_from([[1, 1, 1, 1], [1, 1, 1, 1], [1, 0, 1, 1], [0, 1, 1, 0]]))})
    for _ in range(draw(st.sampled_from([3, 5, 8, 12, 18, 18, 40]))):
        k = draw(st.sampled_from(["backward", "backward", "step", "step", "step", "zero_grad", "toggle", "new_optimizer"]))
        if k == "backward":
            steps.append({"k": "backward", "c": [draw(st.integers(-16, 16)) / 8.0 for _ in range(6)],
                          "mask": draw(st.sampled_from([[1, 1, 1, 1], [1, 1, 1, 1], [1, 0, 1, 1], [0, 1, 1, 0], [0, 0, 1, 1], [1, 1, 0, 1]]))})
        elif k == "toggle":
            steps.append({"k": "toggle", "i": draw(st.integers(0, 5))})
        else:
            steps.append({"k": k})
    if hp.get("eps", 1) == 0:
        # with eps = 0 a zero gradient is 0/0 in the published rule itself: keep gradients away from zero
        for s_ in steps:
            if s_["k"] == "backward":
                s_["c"] = [v if v != 0 else 0.125 for v in s_["c"]]
                s_["mask"] = [1, 1, 1, 1]
        steps = [s_ for s_ in steps if s_["k"] not in ("zero_grad", "toggle")]
        hp["weight_decay"] = 0
        for p_ in params:
            p_["frozen"] = False
    return {"opt": kind, "hp": hp, "params": params, "steps": steps, "dtype": draw(gen.DTYPES)}


class RefOpt:
    def __init__(self, kind, hp, thetas):
        self.kind, self.hp = kind, hp
        self.theta = [t.astype(np.float64).copy() for t in thetas]
        self.state = [dict() for _ in thetas]

    def step(self, i, grad):
        hp = self.hp
        th = self.theta[i]
        st_ = self.state[i]
        g = np.asarray(grad, dtype=np.float64)
        if hp["maximize"]:
            g = -g
        st_["t"] = st_.get("t", 0) + 1
        t = st_["t"]
        if self.kind == "sgd":
            if hp["weight_decay"] != 0:
                g = g + hp["weight_decay"] * th
            mu = hp["momentum"]
            if mu != 0:
                if t > 1:
                    st_["b"] = mu * st_["b"] + (1 - hp["dampening"]) * g
                else:
                    st_["b"] = g.copy()
                g = g + mu * st_["b"] if hp["nesterov"] else st_["b"]
            self.theta[i] = th - hp["lr"] * g
            return
        b1, b2 = hp["betas"]
        if self.kind == "adamw":
            th = th - hp["lr"] * hp["weight_decay"] * th
        elif hp["weight_decay"] != 0:
            g = g + hp["weight_decay"] * th
        st_["m"] = b1 * st_.get("m", 0.0) + (1 - b1) * g
        st_["v"] = b2 * st_.get("v", 0.0) + (1 - b2) * g * g
        mhat = st_["m"] / (1 - b1 ** t)
        vhat = st_["v"] / (1 - b2 ** t)
        self.theta[i] = th - hp["lr"] * mhat / (np.sqrt(vhat) + hp["eps"])


def make_opt(kind, hp, plist):
    if kind == "sgd":
        return sg.optim.SGD(plist, lr=hp["lr"], momentum=hp["momentum"], dampening=hp["dampening"],
                            weight_decay=hp["weight_decay"], nesterov=hp["nesterov"], maximize=hp["maximize"])
    cls = sg.optim.Adam if kind == "adam" else sg.optim.AdamW
    return cls(plist, lr=hp["lr"], betas=tuple(hp["betas"]), eps=hp["eps"], weight_decay=hp["weight_decay"],
               maximize=hp["maximize"])


def check_history(c, rec):
    dt = np.dtype(c["dtype"])
    kind, hp = c["opt"], c["hp"]
    arrs = [gen.arr(p["v"], p["shape"], dt) for p in c["params"]]
    ps = [nn.Parameter(Tensor(a.copy(), requires_grad=not p["frozen"])) for a, p in zip(arrs, c["params"])]
    given, extra = ps[:-1], ps[-1]
    n = len(given)
    try:
        opt = make_opt(kind, hp, list(given))
    except Exception as e:  # noqa: BLE001
        raise Violation("constructor_rejected", f"{kind} constructor raised {type(e).__name__}: {e} for accepted hyper-parameters {hp}")
    ref = RefOpt(kind, hp, arrs[:-1])
    frozen = [p["frozen"] for p in c["params"][:-1]]
    has_grad = [False] * n              # model: trainable param i has a gradient buffer
    egrad = [None] * n                  # model of the accumulated gradient
    ids = [id(p.data) for p in ps]
    nsteps = 0
    since_zero_backwards = 0
    flags = set()
    stepped_without_zero = False
    last_was_step = False
    hist = []
    tol = 1e-10 if dt == np.float64 else 2e-5
    for si, s in enumerate(c["steps"]):
        hist.append(s["k"])
        if s["k"] == "backward":
            loss = None
            mask = s.get("mask", [1, 1, 1, 1])
            used = [bool(mask[i % len(mask)]) and ps[i].requires_grad for i in range(len(ps))]
            if not any(used):
                continue
            if not all(used[i] or frozen[i] for i in range(n)):
                flags.add("partial_backward")
            for i, p in enumerate(ps):
                if not used[i]:
                    continue
                ci = gen.cyc(s["c"][i:] + s["c"][:i], p.shape, dt)
                term = (p * Tensor(ci)).sum()
                loss = term if loss is None else loss + term
            loss.backward()
            for i in range(n):
                if not frozen[i] and used[i]:
                    ci = gen.cyc(s["c"][i:] + s["c"][:i], ps[i].shape, np.float64)
                    egrad[i] = ci if egrad[i] is None else egrad[i] + ci
                    has_grad[i] = True
            since_zero_backwards += 1
            if since_zero_backwards >= 2:
                flags.add("accumulated_backward")
            last_was_step = False
        elif s["k"] == "new_optimizer":
            # training continues with a newly constructed optimizer over the same tensors: it starts from fresh state
            opt = make_opt(kind, hp, list(given))
            ref = RefOpt(kind, hp, [np.asarray(p.data, dtype=np.float64) for p in given])
            flags.add("optimizer_recreated")
            last_was_step = False
        elif s["k"] == "toggle":
            # freeze / unfreeze a parameter in the middle of the run (fine-tuning); what counts is the flag at step time
            i = s["i"] % n
            frozen[i] = not frozen[i]
            ps[i].requires_grad = not frozen[i]
            flags.add("requires_grad_toggled")
            last_was_step = False
        elif s["k"] == "zero_grad":
            opt.zero_grad()
            for i in range(n):
                if not frozen[i] or has_grad[i]:
                    # (a parameter frozen at the moment still has its buffer zeroed; it matters again once unfrozen)
                    egrad[i] = np.zeros(ps[i].shape)
                    has_grad[i] = True
                elif ps[i].grad is not None:
                    egrad[i] = np.asarray(ps[i].grad.data, dtype=np.float64).copy()
                    has_grad[i] = True
            since_zero_backwards = 0
            last_was_step = False
        else:
            if not any(has_grad[i] and not frozen[i] for i in range(n)):
                continue
            if not all(has_grad[i] or frozen[i] for i in range(n)):
                flags.add("step_with_gradless_param")
            before_extra = (extra.data.tobytes(), None if extra.grad is None else extra.grad.data.tobytes())
            before_frozen = [ps[i].data.tobytes() for i in range(n)]
            grads_before = [None if ps[i].grad is None else ps[i].grad.data.tobytes() for i in range(n)]
            try:
                opt.step()
            except Exception as e:  # noqa: BLE001
                raise Violation("step_raised", f"{kind}.step() raised {type(e).__name__}: {e}; hp={hp} "
                                               f"frozen={frozen} history={hist}", region="frozen" if any(frozen) else None)
            nsteps += 1
            for i in range(n):
                p = ps[i]
                if frozen[i]:
                    if p.data.tobytes() != before_frozen[i]:
                        raise Violation("frozen_moved", f"{kind}.step() changed a frozen parameter (requires_grad=False); "
                                                        f"hp={hp} history={hist}")
                    continue
                if not has_grad[i]:
                    # a trainable parameter that no backward has reached yet: the published rules skip it
                    if p.data.tobytes() != before_frozen[i]:
                        raise Violation("gradless_moved", f"{kind}.step() changed a parameter that has no gradient yet; "
                                                          f"hp={hp} history={hist}")
                    continue
                ref.step(i, egrad[i])
                if id(p.data) != ids[i]:
                    raise Violation("not_in_place", f"{kind}.step() rebound parameter {i}'s data to a new array; history={hist}")
                if p.dtype != dt or tuple(p.shape) != tuple(c["params"][i]["shape"]):
                    raise Violation("dtype_shape_changed", f"{kind}.step(): parameter {i} is now {p.dtype}{p.shape}; history={hist}")
                got = np.asarray(p.data, dtype=np.float64)
                want = ref.theta[i]
                scale = max(1.0, float(np.nanmax(np.abs(want))) if want.size and np.any(np.isfinite(want)) else 1.0)
                if hp.get("eps", 1) == 0 and not np.all(np.isfinite(want)):
                    # eps = 0 and an accumulated gradient of exactly zero: the published rule itself is 0/0 here
                    if np.array_equal(np.isnan(got), np.isnan(want)):
                        ref.theta[i] = got.copy()
                        continue
                fin = np.isfinite(want)
                if want.size and (not np.all(np.isfinite(got[fin])) or np.abs(got[fin] - want[fin]).max(initial=0.0) > tol * scale
                                  or not np.array_equal(np.isfinite(got), fin)):
                    raise Violation("trajectory", f"{kind} step #{nsteps}: parameter {i} = {got.ravel()[:4].tolist()} but the "
                                                  f"published rule gives {want.ravel()[:4].tolist()}; hp={hp} frozen={frozen} "
                                                  f"dtype={c['dtype']} history={hist}")
                # keep the reference from drifting apart through float32 rounding of the real trajectory
                if dt == np.float32:
                    ref.theta[i] = got.copy()
                gnow = None if p.grad is None else p.grad.data.tobytes()
                if gnow != grads_before[i]:
                    raise Violation("grad_touched", f"{kind}.step() changed parameter {i}'s gradient; history={hist}")
            if (extra.data.tobytes(), None if extra.grad is None else extra.grad.data.tobytes()) != before_extra:
                raise Violation("foreign_param_touched", f"{kind}.step() changed a parameter that was not given to it")
            if last_was_step:
                flags.add("step_without_zero_grad")
            flags.add("had_step")
            last_was_step = True
    nt = nsteps >= 2 and (bool({"accumulated_backward", "step_without_zero_grad", "step_with_gradless_param", "requires_grad_toggled"} & flags) or hp["maximize"]
                          or (kind == "sgd" and hp["momentum"] != 0 and (hp["dampening"] != 0 or hp["nesterov"]))
                          or (hp["weight_decay"] != 0 and any(frozen)))
    rec.nontrivial(nt)
    rec.tag(*sorted(flags), "steps>=2" if nsteps >= 2 else "steps<2", c["dtype"])
    if any(frozen):
        rec.tag("has_frozen")


# ---- constructor contracts -----------------------------------------------------------------------
@st.composite
def ctor_cases(draw):
    return {"momentum": draw(st.sampled_from([0, 0.5, 0.9])), "dampening": draw(st.sampled_from([0, 0.1])),
            "nesterov": draw(st.booleans()), "empty": draw(st.integers(0, 5)) == 0}


def check_ctor(c, rec):
    rec.nontrivial(True)
    p = [] if c["empty"] else [nn.Parameter(Tensor(np.ones(2), requires_grad=True))]
    invalid = c["empty"] or (c["nesterov"] and (c["momentum"] <= 0 or c["dampening"] != 0))
    try:
        sg.optim.SGD(p, lr=0.1, momentum=c["momentum"], dampening=c["dampening"], nesterov=c["nesterov"])
    except ValueError:
        if invalid:
            return
        raise Violation("constructor_rejected", f"SGD rejected a valid configuration {c}")
    if invalid:
        raise Violation("constructor_accepted", f"SGD accepted an invalid configuration {c} "
                                                f"(empty parameter list or nesterov without momentum / with dampening)")


@st.composite
def _init(draw, kind):
    c = draw(histories(kind))
    c["steps"] = []
    return c


@st.composite
def _command(draw):
    k = draw(st.sampled_from(["backward", "backward", "step", "step", "step", "zero_grad", "toggle", "new_optimizer"]))
    if k == "backward":
        return {"k": "backward", "c": [draw(st.integers(-16, 16)) / 8.0 for _ in range(6)],
                "mask": draw(st.sampled_from([[1, 1, 1, 1], [1, 1, 1, 1], [1, 0, 1, 1], [0, 1, 1, 0], [0, 0, 1, 1]]))}
    if k == "toggle":
        return {"k": "toggle", "i": draw(st.integers(0, 5))}
    return {"k": k}


def _assemble(init, cmds):
    c = dict(init)
    if init["hp"].get("eps", 1) == 0:          # same normalisation as the list generator: the rule itself is 0/0 at g = 0
        cmds = [dict(s_, c=[v if v != 0 else 0.125 for v in s_["c"]], mask=[1, 1, 1, 1]) if s_["k"] == "backward" else s_
                for s_ in cmds if s_["k"] not in ("zero_grad", "toggle")]
    c["steps"] = cmds
    return c


def subchecks():
    from ..core import command_machine
    subs = [SubCheck(k + "_rule_based", check_history, None, machine=command_machine(_init(k), _command(), _assemble), steps=16,
                     quick=60, thorough=500, shards_quick=2, shards_thorough=4) for k in ("sgd", "adam", "adamw")]
    subs += [SubCheck(k, check_history, (lambda k=k: histories(k)), quick=500, thorough=4000, shards_quick=4,
                     shards_thorough=8) for k in ("sgd", "adam", "adamw")]
    subs.append(SubCheck("sgd_constructor", check_ctor, ctor_cases, quick=60, thorough=200))
    return subs[3:] + subs[:3]
