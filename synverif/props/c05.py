"""C05 - forward results of tensor ops / constructors / iteration match the NumPy/PyTorch definition."""
import numpy as np
from hypothesis import strategies as st

from .. import gen, ops
from ..core import SubCheck, Violation
from ..env import sg

RULE = ("cases: op x operand shapes (rank 0-4(5), size-1 dims over-represented, every broadcasting pattern) x "
        "legal argument values (negative/tuple dims, keepdims, index expressions, source/destination pairs, "
        "flatten start/end, unfold dimension/size/step) x grid values of either sign x {float32,float64}; "
        "constructors x shape spellings x dtype; single/nested/interleaved iterations.  Oracle: independent "
        "NumPy float64 reference + accept/reject protocol (documented argument combinations must be accepted; "
        "other legal ones may raise but must never return a different shape/value).  non-trivial: per-op "
        "predicate (non-default dim/index argument, broadcasting, rank 0 or 4, reflected operator, ...); "
        "distinct by hash of the whole case"
        " Also: memory layouts, nn.Parameter operands, scaled magnitudes, float16 means over long reductions, Python scalars with integer/bool tensors, synapgrad.slice functional form, and an enumerated grid of every dim argument for ranks <= 3 (quick) / 4 (thorough)."
        " Round 4: reflected operators (list @ t, t @ list, scalar op t) with closed-form gradients, operands with a zero-length dimension (forward = NumPy), 0-d tensors with dim 0/-1, NumPy-integer dims, dim=(), addmm with batched factors / larger x1."
        " Round 5: integer tensors as divisors and as bases of negative powers (refuse, or the real quotient)."
        " Round 6: reductions over int8/uint8/int16/int32/int64/bool tensors; NumPy-scalar operands (np.float64/np.float32/np.int64) of tensor-scalar arithmetic."
        " Round 7: arange with decimal bounds whose element count changes under float32-rounded bounds (count exact, values at 4 eps).")
ASSUMPTIONS = ["NumPy is the definition of broadcasting/indexing semantics; PyTorch semantics for squeeze/flatten/"
               "unfold/movedim are transcribed in synverif/ops.py references",
               "float32 tolerance 2e-5*scale, float64 1e-12*scale for arithmetic; bit-exact for data movement"]


def _cmp(name, got, want, dt, exact, ctx, tol64=1e-12, tol32=2e-5):
    got = np.asarray(got)
    want = np.asarray(want, dtype=np.float64)
    if tuple(got.shape) != tuple(want.shape):
        raise Violation("shape", f"{name}: result shape {tuple(got.shape)} != reference {tuple(want.shape)}; {ctx}")
    if got.size == 0:
        return
    g64 = got.astype(np.float64)
    if exact:
        w = want.astype(dt).astype(np.float64)
        if not np.array_equal(g64, w):
            i = np.argwhere(g64 != w)[0]
            raise Violation("value", f"{name}: value differs at {i.tolist()}: got {g64[tuple(i)]!r} want {w[tuple(i)]!r}; {ctx}")
        return
    tol = tol64 if np.dtype(dt) == np.float64 else tol32
    scale = max(1.0, float(np.abs(want).max()))
    err = np.abs(g64 - want)
    if not np.all(np.isfinite(g64)) or float(err.max()) > tol * scale:
        i = np.unravel_index(int(np.nanargmax(np.where(np.isfinite(err), err, np.inf))), err.shape)
        raise Violation("value", f"{name}: |got-want|={float(err[i])!r} > {tol}*{scale} at {list(i)}: got {g64[i]!r} "
                                 f"want {want[i]!r}; {ctx}")


def make_check(op):
    def check(case, rec):
        args = case["args"]
        shp = ops.shapes_of(case)
        rec.nontrivial(op.nt(args, shp))
        rec.tag(*op.tags(args, shp))
        rec.tag(case["dtype"])
        dt = np.dtype(case["dtype"])
        want = op.ref(ops.arrays(case), args)
        ctx = f"op={op.name} shapes={shp} args={args} dtype={case['dtype']}"
        ts = ops.leaves(case)
        try:
            out = op.apply(ts, args)
        except Exception as e:  # noqa: BLE001
            if op.documented(args, shp):
                raise Violation("rejected_documented",
                                f"{op.name} raised {type(e).__name__}: {e} for an argument combination its "
                                f"documentation allows; {ctx}")
            rec.skip = "rejected_not_documented"
            return
        if op.multi:
            if len(out) != len(want):
                raise Violation("shape", f"{op.name}: {len(out)} outputs, reference {len(want)}; {ctx}")
            for i, (o, w) in enumerate(zip(out, want)):
                _cmp(f"{op.name}[{i}]", o.data, w, dt, op.exact, ctx, op.tol64)
        else:
            _cmp(op.name, out.data, want, dt, op.exact, ctx, op.tol64)
    return check


# ---------------------------------------------------------------------------------------------
# constructors
# ---------------------------------------------------------------------------------------------
CTORS = ["tensor", "Tensor", "empty", "ones", "zeros", "ones_like", "zeros_like", "arange", "rand", "randn",
         "normal", "randint", "eye"]


@st.composite
def ctor_cases(draw):
    name = draw(st.sampled_from(CTORS))
    c = {"ctor": name, "dtype": draw(st.sampled_from([None, "float32", "float64"])),
         "rg": draw(st.booleans()), "seed": draw(st.integers(0, 2 ** 31 - 1))}
    shp = draw(gen.shapes(0, 5, 200))
    c["shape"] = shp
    c["spell"] = draw(st.sampled_from(["varargs", "tuple", "list"]))
    if name in ("tensor", "Tensor"):
        # decimal values that are not representable in float32
        c["v"] = [draw(st.sampled_from([0.1, -0.3, 1.7, 2.0, 1e-3, 123.456, -7.25, 1 / 3, 16777217.0, 0.0]))
                  for _ in range(int(np.prod(shp)) if shp else 1)]
        c["src"] = draw(st.sampled_from(["list", "ndarray64", "ndarray32"]))
    if name == "arange":
        k = draw(st.integers(1, 3))
        if k == 1:
            c["interval"] = [draw(st.integers(0, 12))]
        elif k == 2:
            a = draw(st.integers(-6, 6))
            c["interval"] = [a, a + draw(st.integers(0, 10))]
        else:
            a = draw(st.integers(-6, 6))
            stp = draw(st.sampled_from([1, 2, 3, 0.5, -1, -2, 0.3, 0.1, -0.3, 0.7]))
            n = draw(st.integers(0, 8))
            c["interval"] = [a, a + stp * n, stp]
            if not float(stp).is_integer() and stp not in (0.5,):
                # decimal bounds: the element count ceil((end-start)/step) is taken from the doubles as given - these
                # triples give another count when the bounds are first rounded to float32
                c["interval"] = list(draw(st.sampled_from([(0.0, 2.1, 0.3), (0.0, -2.1, -0.3), (0.0, 2.1, 0.7), (0.0, 2.1, 0.15), (0.0, 2.7, 0.3),
                                                           (0.0, -2.7, -0.15), (0.1, 0.3, 0.1), (0.1, 0.3, 0.2), (0.1, 0.4, 0.1), (0.1, 0.4, 0.3),
                                                           (1.0, 3.3, 0.7), (0.0, 0.9, 0.1), (0.0, 1.5, 0.3)])))
    if name == "normal":
        c["loc"] = draw(st.sampled_from([0.0, -3.0, 10.0]))
        c["scale"] = draw(st.sampled_from([1.0, 0.5, 4.0]))
    if name == "randint":
        c["low"] = draw(st.integers(-5, 5))
        c["high"] = c["low"] + draw(st.integers(1, 9))
        c["dtype"] = draw(st.sampled_from([None, "int32", "int64", "float32"]))
        c["rg"] = False
    if name == "eye":
        c["n"] = draw(st.integers(1, 6))
    return c


def _shape_args(c):
    shp = c["shape"]
    if c["spell"] == "varargs":
        return tuple(shp)
    if c["spell"] == "tuple":
        return (tuple(shp),)
    return (list(shp),)


def check_ctor(c, rec):
    name = c["ctor"]
    dtype = None if c["dtype"] is None else np.dtype(c["dtype"]).type
    want_dt = np.dtype(c["dtype"]) if c["dtype"] else np.dtype(np.float32)
    kw = {"dtype": dtype, "requires_grad": c["rg"]}
    shp = tuple(c["shape"])
    rec.tag(name)
    rec.nontrivial(c["dtype"] is not None or len(shp) in (0, 5) or c["spell"] != "varargs")
    sg.manual_seed(c["seed"])
    ctx = f"{c}"

    # a 0-d shape is not spelled out anywhere for the random constructors: accept-or-raise
    documented = not (name in ("rand", "randn", "normal") and len(shp) == 0)

    class _Rejected(Exception):
        pass

    def call(fn, *a, **k):
        try:
            return fn(*a, **k)
        except Exception as e:  # noqa: BLE001
            if not documented:
                raise _Rejected()
            raise Violation("rejected_documented", f"{name} raised {type(e).__name__}: {e}; {ctx}", region=name)

    if name in ("tensor", "Tensor"):
        vals64 = np.array(c["v"], dtype=np.float64).reshape(shp)
        if c["src"] == "list":
            data = vals64.tolist()
            src_dt = None
        elif c["src"] == "ndarray64":
            data = vals64.copy()
            src_dt = np.dtype(np.float64)
        else:
            data = vals64.astype(np.float32)
            src_dt = np.dtype(np.float32)
        if name == "tensor":
            t = call(sg.tensor, data, requires_grad=c["rg"], dtype=dtype)
            # synapgrad.tensor: "Creates a Tensor from a numpy array", default dtype float32 (torch-like)
            exp_dt = want_dt
            exp = np.asarray(data, dtype=np.float64).astype(exp_dt)
        else:
            t = call(sg.Tensor, data, requires_grad=c["rg"], dtype=dtype)
            exp_dt = want_dt if c["dtype"] else (src_dt or np.dtype(np.float32))
            exp = np.asarray(data).astype(exp_dt)
        if t.shape != shp:
            raise Violation("shape", f"{name}: shape {t.shape} != {shp}; {ctx}", region=name)
        if t.dtype != exp_dt:
            raise Violation("dtype", f"{name}: dtype {t.dtype} != requested/expected {exp_dt}; {ctx}", region=name)
        if not np.array_equal(t.data, exp):
            raise Violation("value", f"{name}: values {t.data.ravel()[:4]!r} != data rounded once to {exp_dt}: "
                                     f"{exp.ravel()[:4]!r}; {ctx}", region=name)
        if t.requires_grad != c["rg"]:
            raise Violation("flag", f"{name}: requires_grad {t.requires_grad} != {c['rg']}", region=name)
        return
    if name in ("empty", "ones", "zeros", "rand", "randn"):
        try:
            t = call(getattr(sg, name), *_shape_args(c), **kw)
        except _Rejected:
            rec.skip = "rejected_not_documented"
            return
    elif name in ("ones_like", "zeros_like"):
        src = sg.Tensor(np.full(shp, 7.0, dtype=np.float64 if c["seed"] % 2 else np.float32))
        t = call(getattr(sg, name), src, **kw)
        if c["dtype"] is None:
            want_dt = src.dtype
    elif name == "arange":
        t = call(sg.arange, *c["interval"], **kw)
        exp = np.arange(*c["interval"]).astype(want_dt)
        shp = exp.shape
    elif name == "normal":
        try:
            t = call(sg.normal, c["loc"], c["scale"], *tuple(c["shape"]), **kw)
        except _Rejected:
            rec.skip = "rejected_not_documented"
            return
    elif name == "randint":
        t = call(sg.randint, c["low"], c["high"], tuple(c["shape"]), dtype=dtype)
        if c["dtype"] is None:
            want_dt = None
    elif name == "eye":
        t = call(sg.eye, c["n"], **kw)
        shp = (c["n"], c["n"])
    if tuple(t.shape) != tuple(shp):
        raise Violation("shape", f"{name}: shape {t.shape} != {tuple(shp)}; {ctx}", region=name)
    if want_dt is not None and t.dtype != want_dt:
        raise Violation("dtype", f"{name}: dtype {t.dtype} != {want_dt}; {ctx}", region=name)
    if name != "randint" and t.requires_grad != c["rg"]:
        raise Violation("flag", f"{name}: requires_grad {t.requires_grad} != {c['rg']}", region=name)
    d = np.asarray(t.data)
    if name in ("ones", "ones_like") and not np.all(d == 1):
        raise Violation("value", f"{name}: not all ones; {ctx}", region=name)
    if name in ("zeros", "zeros_like") and not np.all(d == 0):
        raise Violation("value", f"{name}: not all zeros; {ctx}", region=name)
    if name == "arange" and any(not float(v).is_integer() for v in c["interval"]):
        # fractional steps: the COUNT is exact, the values are start + i*step to rounding of the result dtype
        if d.shape != exp.shape or np.abs(d.astype(np.float64) - exp.astype(np.float64)).max(initial=0.0) > 4 * float(np.finfo(d.dtype if d.dtype.kind == "f" else np.float32).eps) * max(1.0, float(np.abs(exp).max(initial=0.0))):
            raise Violation("value", f"arange{tuple(c['interval'])}: {d!r} != np.arange: {exp!r}", region=name)
    elif name == "arange" and not np.array_equal(d, exp):
        raise Violation("value", f"arange{tuple(c['interval'])}: {d!r} != np.arange: {exp!r}", region=name)
    if name == "eye":
        for i in range(c["n"]):
            for j in range(c["n"]):
                if d[i, j] != (1 if i == j else 0):
                    raise Violation("value", f"eye({c['n']})[{i},{j}] = {d[i, j]}", region=name)
    if name == "rand" and d.size and not (np.all(d >= 0) and np.all(d < 1)):
        raise Violation("value", f"rand: values outside [0,1): min {d.min()} max {d.max()}; {ctx}", region=name)
    if name == "randint" and d.size:
        if not (np.all(d >= c["low"]) and np.all(d < c["high"]) and np.all(d == np.round(d))):
            raise Violation("value", f"randint: values outside [{c['low']},{c['high']}) or not integral; {ctx}",
                            region=name)
    if name in ("randn", "normal") and d.size and not np.all(np.isfinite(d)):
        raise Violation("value", f"{name}: non-finite sample", region=name)


# ---------------------------------------------------------------------------------------------
# len / iteration (single, nested, interleaved iterators over one tensor)
# ---------------------------------------------------------------------------------------------
@st.composite
def iter_cases(draw):
    shp = draw(gen.shapes(1, 4, 60))
    n = shp[0]
    # a schedule of next() calls over k iterators created at drawn points
    k = draw(st.integers(1, 3))
    sched = draw(st.lists(st.integers(0, k - 1), min_size=1, max_size=(n + 1) * k))
    return {"shape": shp, "v": draw(gen.grid(shp)), "k": k, "sched": sched,
            "nested": draw(st.booleans()), "dtype": draw(gen.DTYPES)}


def check_iter(c, rec):
    x = gen.arr(c["v"], c["shape"], np.dtype(c["dtype"]))
    t = sg.Tensor(x.copy())
    n = x.shape[0]
    rec.nontrivial(c["k"] > 1 or c["nested"])
    rec.tag("iterators_%d" % c["k"])
    if len(t) != n:
        raise Violation("len", f"len(t)={len(t)} for shape {x.shape}")
    # single full iteration == [t[i] for i in range(len(t))]
    items = list(t)
    if len(items) != n:
        raise Violation("iter_count", f"list(t) yields {len(items)} items for first dimension {n}")
    for i, it in enumerate(items):
        if it.shape != x[i].shape or not np.array_equal(it.data, x[i]):
            raise Violation("iter_value", f"item {i} of list(t) != t[{i}]; shape {x.shape}")
    if c["nested"]:
        rec.tag("nested")
        pairs = [(float(a.data.ravel()[0]), float(b.data.ravel()[0])) for a in t for b in t]
        want = [(float(x[i].ravel()[0]), float(x[j].ravel()[0])) for i in range(n) for j in range(n)]
        if pairs != want:
            raise Violation("nested_iteration", f"nested iteration over one tensor of length {n} yields "
                                                f"{len(pairs)} pairs instead of {len(want)} (or wrong order)")
    # interleaved iterators: each must yield, independently, the sequence t[0], t[1], ...
    its = [iter(t) for _ in range(c["k"])]
    pos = [0] * c["k"]
    for j in c["sched"]:
        try:
            v = next(its[j])
            got = ("item", v)
        except StopIteration:
            got = ("stop", None)
        if pos[j] < n:
            if got[0] != "item" or not np.array_equal(got[1].data, x[pos[j]]):
                raise Violation("interleaved_iteration",
                                f"iterator {j} of {c['k']} over a tensor of length {n}: call #{pos[j]} returned "
                                f"{'StopIteration' if got[0] == 'stop' else got[1].data.ravel()[:3]} instead of t[{pos[j]}]; "
                                f"schedule={c['sched']}")
            pos[j] += 1
        else:
            if got[0] != "stop":
                raise Violation("interleaved_iteration", f"iterator {j} yields beyond the end; schedule={c['sched']}")


# ---- Python scalars with integer tensors: the mathematical value, never a truncated scalar -----------------------------
@st.composite
def int_scalar_cases(draw):
    shp = draw(gen.shapes(0, 3, 30))
    n = int(np.prod(shp)) if shp else 1
    return {"shape": shp, "v": [draw(st.integers(-6, 6)) for _ in range(n)], "idt": draw(st.sampled_from(["int64", "int32", "int8", "uint8", "bool"])),
            "c": draw(st.sampled_from([0.5, 0.25, 1.5, -2.5, 4, 3, 0.1, -0.75])), "form": draw(st.sampled_from(SCALAR_FORMS_INT))}


SCALAR_FORMS_INT = ["add", "radd", "sub", "rsub", "mul", "rmul", "div", "rdiv", "pow-1", "pow_fn-1", "tdiv", "list_div", "pow2", "pow-2"]


def check_int_scalar(c, rec):
    dt = np.dtype(c["idt"])
    vals = np.array(c["v"]).reshape(c["shape"])
    if dt.kind == "u":
        vals = np.abs(vals)
    if dt.kind == "b":
        vals = vals % 2
    x = vals.astype(dt)
    t = sg.Tensor(x.copy())
    cc, f = c["c"], c["form"]
    rec.nontrivial(not float(cc).is_integer())
    rec.tag(c["idt"], f)
    if f in ("rdiv", "pow-1", "pow_fn-1", "tdiv", "list_div", "pow-2"):
        # an integer tensor as divisor / base of a negative power: refused by NumPy and PyTorch for the power, true
        # division for "/" - either way the only acceptable ANSWER is the real quotient, never integer arithmetic
        x = np.where(x == 0, 1, x).astype(dt)
        t = sg.Tensor(x.copy())
    one = sg.Tensor(np.ones(x.shape, dtype=np.float32))
    fn = {"add": lambda a: a + cc, "radd": lambda a: cc + a, "sub": lambda a: a - cc, "rsub": lambda a: cc - a,
          "mul": lambda a: a * cc, "rmul": lambda a: cc * a, "div": lambda a: a / cc, "rdiv": lambda a: cc / a,
          "pow-1": lambda a: a ** -1, "pow-2": lambda a: a ** -2, "pow2": lambda a: a ** 2,
          "pow_fn-1": lambda a: sg.pow(a, -1) if isinstance(a, sg.Tensor) else a ** -1.0,
          "tdiv": lambda a: (one / a) if isinstance(a, sg.Tensor) else 1.0 / a,
          "list_div": lambda a: (np.ones(x.shape).tolist() / a) if isinstance(a, sg.Tensor) else 1.0 / a}[f]
    try:
        out = fn(t)
    except Exception:  # noqa: BLE001  (nothing documents integer tensors with scalars: accept-or-raise)
        rec.skip = "rejected_not_documented"
        return
    with np.errstate(all="ignore"):
        x64 = x.astype(np.float64)
        want = {"pow-1": lambda: 1.0 / x64, "pow-2": lambda: 1.0 / x64 ** 2, "pow2": lambda: x64 ** 2}.get(f, lambda: fn(x64))()
    got = np.asarray(out.data, dtype=np.float64)
    if got.shape != want.shape or np.abs(got - want).max(initial=0.0) > 1e-6 * max(1.0, np.abs(want).max(initial=0.0)):
        raise Violation("value", f"{c['idt']} tensor {f} Python scalar {cc!r}: got {got.ravel()[:5].tolist()} instead of "
                                 f"{want.ravel()[:5].tolist()} (x={x.ravel()[:5].tolist()})")


# ---- reductions over integer / bool tensors: counts and sums as NumPy and PyTorch compute them ---------------------
@st.composite
def int_reduce_cases(draw):
    shp = draw(gen.shapes(1, 3, 40))
    n = int(np.prod(shp))
    return {"shape": shp, "v": [draw(st.integers(-120, 127)) for _ in range(n)], "idt": draw(st.sampled_from(["bool", "int8", "uint8", "int16", "int32", "int64"])),
            "op": draw(st.sampled_from(["sum", "sum", "max", "min"])), "dim": draw(st.sampled_from([None, 0, -1])), "keep": draw(st.booleans())}


def check_int_reduce(c, rec):
    dt = np.dtype(c["idt"])
    vals = np.array(c["v"]).reshape(c["shape"])
    if dt.kind == "u":
        vals = np.abs(vals)
    if dt.kind == "b":
        vals = vals % 2
    x = vals.astype(dt)
    rec.tag(c["idt"], c["op"])
    rec.nontrivial(True)
    try:
        out = getattr(sg.Tensor(x.copy()), c["op"])(c["dim"], c["keep"])
    except Exception:  # noqa: BLE001
        rec.skip = "rejected_not_documented"
        return
    want = getattr(np, c["op"])(x.astype(np.int64), axis=c["dim"], keepdims=c["keep"])       # the true count / sum / extremum
    got = np.asarray(out.data)
    if got.shape != np.shape(want) or not np.array_equal(got.astype(np.float64), np.asarray(want, dtype=np.float64)):
        raise Violation("value", f"{c['op']} of a {c['idt']} tensor {x.ravel()[:6].tolist()}... (dim={c['dim']}): got "
                                 f"{got.ravel()[:4].tolist()} ({got.dtype}), the true result is {np.asarray(want).ravel()[:4].tolist()}")


# ---- half precision: mean follows NumPy/PyTorch (float32 intermediates), also for long reductions -----------
@st.composite
def f16_cases(draw):
    n = draw(st.sampled_from([3, 17, 200, 700, 1000, 2000, 4096]))
    m = draw(st.sampled_from([1, 1, 2, 3]))
    return {"n": n, "m": m, "base": draw(st.sampled_from([100.0, 64.0, 33.0, 250.0, 1.0, -100.0])),
            "dim": draw(st.sampled_from([None, 0, -2, 1])), "keepdims": draw(st.booleans()),
            "jit": draw(st.integers(0, 7))}


def check_f16(c, rec):
    n, m = c["n"], c["m"]
    x = (c["base"] + ((np.arange(n * m) * 7 + c["jit"]) % 9 - 4)).astype(np.float16).reshape(n, m)
    rec.nontrivial(abs(c["base"]) * n > 65504)       # a float16 accumulator would overflow / round badly
    rec.tag("float16")
    t = sg.Tensor(x.copy())
    d = c["dim"]
    try:
        out = t.mean(d, c["keepdims"])
    except Exception as e:  # noqa: BLE001
        raise Violation("rejected_documented", f"mean of a float16 tensor raised {type(e).__name__}: {e}; {c}")
    want = x.astype(np.float64).mean(axis=d, keepdims=c["keepdims"])
    got = np.asarray(out.data, dtype=np.float64)
    if got.shape != np.shape(want):
        raise Violation("shape", f"float16 mean: shape {got.shape} != {np.shape(want)}; {c}")
    tol = 2 * float(np.finfo(np.float16).eps) * np.maximum(1.0, np.abs(want))
    if not np.all(np.isfinite(got)) or np.any(np.abs(got - want) > tol):
        raise Violation("value", f"float16 mean over {n}x{m} values near {c['base']}: got {got.ravel()[:3].tolist()} exact "
                                 f"{np.asarray(want).ravel()[:3].tolist()} (half-precision rounding allows {float(np.max(tol)):.3g}); {c}")


# ---- enumerated grid of dim arguments (exhaustive in the thorough tier) --------------------------------
def _all_shapes(max_rank, sides):
    import itertools
    out = [[]]
    for r in range(1, max_rank + 1):
        out += [list(t) for t in itertools.product(sides, repeat=r)]
    return out


def _vals(shape, salt):
    n = int(np.prod(shape)) if shape else 1
    perm = [((i * 7 + salt * 3) % max(n, 1)) for i in range(n)]
    if len(set(perm)) < n:
        perm = list(range(n))
    return [(v - n // 2) / 8.0 for v in perm]          # pairwise distinct -> no ties for max/min


def enum_dims(tier, shard, nshards):
    import itertools
    shapes = _all_shapes(4 if tier == "thorough" else 3, (1, 2, 3))
    i = 0

    def emit(opname, shape, args, extra_xs=()):
        nonlocal i
        i += 1
        if i % nshards != shard:
            return None
        xs = [ops.X(shape, _vals(shape, i))] + list(extra_xs)
        return {"op": opname, "xs": xs, "args": args, "dtype": "float64" if i % 3 else "float32", "rg": [False] * len(xs),
                "g": [0.0], "gdtype": "same", "wrap": False, "layout": "C", "scale": 1.0, "oi": i}

    for shape in shapes:
        nd = len(shape)
        dims = [None] + (list(range(-nd, nd)) if nd else [0, -1])     # a 0-d tensor: dim 0 / -1 may be named
        tuples = []
        for k in range(1, nd + 1):
            for comb in itertools.combinations(range(nd), k):
                tuples.append({"tuple": list(comb)})
                tuples.append({"tuple": [c - nd for c in comb][::-1]})
                if k >= 2:
                    tuples.append({"tuple": [comb[0] - nd] + list(comb[1:])})
        for keep in (False, True):
            for d in dims + tuples:
                for name in ("sum", "mean"):
                    c = emit(name, shape, {"dim": d, "keepdims": keep, "form": "method" if keep else "fn"})
                    if c:
                        yield c
            for d in dims:
                for name in ("max", "min"):
                    c = emit(name, shape, {"dim": d, "keepdims": keep, "form": "fn" if keep else "method"})
                    if c:
                        yield c
        for d in dims + tuples:
            c = emit("squeeze", shape, {"dim": d, "form": "method"})
            if c:
                yield c
        for d in range(-nd - 1, nd + 1):
            c = emit("unsqueeze", shape, {"dim": d, "form": "fn"})
            if c:
                yield c
            c = emit("stack", shape, {"dim": d, "use": [0, 1, 0], "seq": "list"}, [ops.X(shape, _vals(shape, i + 1))])
            if c:
                yield c
        for a in range(-nd, nd):
            c = emit("unbind", shape, {"dim": a}) if nd else None
            if c:
                yield c
            c = emit("concat", shape, {"dim": a, "use": [0, 1], "seq": "tuple"}, [ops.X(shape, _vals(shape, i + 2))]) if nd else None
            if c:
                yield c
            for b in range(-nd, nd):
                for name, args in (("transpose", {"dim0": a, "dim1": b, "form": "method"}),
                                   ("movedim", {"source": a, "destination": b, "form": "fn"})):
                    c = emit(name, shape, args)
                    if c:
                        yield c
                if a % nd <= b % nd:
                    c = emit("flatten", shape, {"start": a, "end": b, "form": "method"})
                    if c:
                        yield c
            n = shape[a % nd] if nd else 0
            for size in range(1, n + 1):
                for step in range(1, n + 2):
                    c = emit("unfold_dim", shape, {"dimension": a, "size": size, "step": step, "form": "method"})
                    if c:
                        yield c


def check_dim_grid(case, rec):
    make_check(ops.BY_NAME[case["op"]])(case, rec)


# ---------------------------------------------------------------------------------------------
# operators whose OTHER operand is not a Tensor (reflected forms): list @ t, t @ list, s - t, s / t, s ** t
# ---------------------------------------------------------------------------------------------
@st.composite
def reflected_cases(draw):
    n, k, m = draw(st.integers(1, 4)), draw(st.integers(1, 4)), draw(st.integers(1, 4))
    form = draw(st.sampled_from(["list@t", "t@list", "batched list@t", "s-t", "s/t", "s**t", "s+t", "s*t"]))
    bt = [draw(st.integers(1, 3))] if form == "batched list@t" else []
    return {"form": form, "a": draw(gen.grid([n, k], -16, 16)), "b": draw(gen.grid_away_from_zero(bt + [k, m])), "n": n, "k": k, "m": m,
            "bt": bt, "s": draw(st.sampled_from([2, 0.5, -3, 1.5, 1, 0])), "dtype": draw(gen.DTYPES), "rg": draw(st.booleans()),
            "g": draw(gen.upstream())}


def check_reflected(c, rec):
    Tensor = sg.Tensor
    dt = np.dtype(c["dtype"])
    n, k, m = c["n"], c["k"], c["m"]
    a = gen.arr(c["a"], [n, k], np.float64)                 # plain nested list operand (float32-exact values)
    b = gen.arr(c["b"], c["bt"] + [k, m], dt)
    t = Tensor(b.copy(), requires_grad=c["rg"])
    f = c["form"]
    rec.tag(f)
    rec.nontrivial(True)
    s_ = c["s"]
    lst = gen.cyc(c["a"], (m, 2), np.float64)               # right-hand plain list operand of t @ list
    try:
        if f in ("list@t", "batched list@t"):
            out = a.tolist() @ t
            want = np.einsum("ik,...kj->...ij", a, b.astype(np.float64))
            gw = lambda g: np.einsum("ik,...ij->...kj", a, g)                       # noqa: E731
        elif f == "t@list":
            out = t @ lst.tolist()
            want = b.astype(np.float64) @ lst
            gw = lambda g: g @ lst.T                                                 # noqa: E731
        elif f == "s-t":
            out = s_ - t; want = s_ - b.astype(np.float64); gw = lambda g: -g       # noqa: E731,E702
        elif f == "s+t":
            out = s_ + t; want = s_ + b.astype(np.float64); gw = lambda g: g        # noqa: E731,E702
        elif f == "s*t":
            out = s_ * t; want = s_ * b.astype(np.float64); gw = lambda g: s_ * g   # noqa: E731,E702
        elif f == "s/t":
            out = s_ / t; want = s_ / b.astype(np.float64); gw = lambda g: -s_ * g / b.astype(np.float64) ** 2   # noqa: E731,E702
        else:
            if s_ <= 0:
                rec.skip = "base_not_positive"
                return
            out = s_ ** t; want = float(s_) ** b.astype(np.float64); gw = lambda g: g * want * np.log(s_)       # noqa: E731,E702
    except Exception as e:  # noqa: BLE001
        raise Violation("rejected_documented", f"{f} raised {type(e).__name__}: {e}; {c}", region=f)
    if not isinstance(out, Tensor):
        raise Violation("shape", f"{f} returned {type(out).__name__}, not a Tensor; {c}", region=f)
    if out.shape != want.shape:
        raise Violation("shape", f"{f}: shape {out.shape} != {want.shape}; {c}", region=f)
    if out.dtype != dt:
        raise Violation("dtype", f"{f}: a Python operand changed the result dtype to {out.dtype} (tensor is {dt}); {c}", region=f)
    tol = (1e-12 if dt == np.float64 else 2e-6) * max(1.0, float(np.abs(want).max()))
    if np.abs(np.asarray(out.data, dtype=np.float64) - want).max() > tol:
        raise Violation("value", f"{f}: values differ from the NumPy result by "
                                 f"{np.abs(np.asarray(out.data, dtype=np.float64) - want).max():.3e}; {c}", region=f)
    if out.requires_grad != c["rg"]:
        raise Violation("flag", f"{f}: requires_grad {out.requires_grad}, the tensor operand's is {c['rg']}; {c}", region=f)
    if c["rg"]:
        g = gen.cyc(c["g"], out.shape, dt)
        out.backward(Tensor(g.copy()))
        wantg = gw(g.astype(np.float64))
        got = np.asarray(t.grad.data, dtype=np.float64)
        gt = (1e-10 if dt == np.float64 else 2e-4) * max(1.0, float(np.abs(wantg).max()))
        if got.shape != wantg.shape or np.abs(got - wantg).max() > gt:
            raise Violation("value", f"{f}: gradient of the tensor operand differs from the closed form; {c}", region=f + "/grad")


# ---- operands with a zero-length dimension: forward equals NumPy (shape, dtype, values) ---------------
def check_zero_size(c, rec):
    from .. import zerosize
    try:
        out, ref, ops_ = zerosize.run(c)
    except Exception as e:  # noqa: BLE001
        # NumPy (and PyTorch) accept every member of this family; they are ordinary shapes
        raise Violation("rejected_documented", f"{c['kind']} with a zero-length dimension raised {type(e).__name__}: {e}; {c}",
                        region="zero_size")
    rec.tag(c["kind"])
    rec.nontrivial(True)
    if tuple(out.shape) != tuple(ref.shape):
        raise Violation("shape", f"{c['kind']}: result shape {tuple(out.shape)} != NumPy {ref.shape}; {c}", region="zero_size")
    if out.dtype != np.dtype(c["dtype"]):
        raise Violation("dtype", f"{c['kind']}: result dtype {out.dtype} for {c['dtype']} operands; {c}", region="zero_size")
    if ref.size and not np.allclose(np.asarray(out.data, dtype=np.float64), ref.astype(np.float64), rtol=1e-5, atol=1e-6):
        raise Violation("value", f"{c['kind']}: values differ from NumPy; {c}", region="zero_size")
    if out.requires_grad != any(t.requires_grad for t in ops_):
        raise Violation("flag", f"{c['kind']}: requires_grad {out.requires_grad}; {c}", region="zero_size")


def subchecks():
    subs = []
    for op in ops.OPS:
        subs.append(SubCheck(op.name, make_check(op), (lambda op=op: ops.full_case(op, need_grad=False)),
                             quick=500, thorough=4000, shards_quick=2, shards_thorough=4))
    subs.append(SubCheck("constructors", check_ctor, ctor_cases, quick=600, thorough=8000, shards_thorough=2))
    subs.append(SubCheck("iteration", check_iter, iter_cases, quick=300, thorough=5000, shards_thorough=2))
    subs.append(SubCheck("float16_mean", check_f16, f16_cases, quick=150, thorough=2000))
    subs.append(SubCheck("reflected_operators", check_reflected, reflected_cases, quick=400, thorough=4000))
    from .. import zerosize
    subs.append(SubCheck("zero_size", check_zero_size, zerosize.cases, quick=500, thorough=6000))
    subs.append(SubCheck("int_tensor_reductions", check_int_reduce, int_reduce_cases, quick=400, thorough=4000))
    subs.append(SubCheck("int_tensor_scalar", check_int_scalar, int_scalar_cases, quick=600, thorough=6000))
    subs.append(SubCheck("dim_grid", check_dim_grid, None, enum=enum_dims, exhaustive=True, shards_quick=8, shards_thorough=16))
    return subs
