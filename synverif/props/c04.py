"""C04 - leaf gradients accumulate exactly across any history of backward calls.

Histories are generated as command lists (shrinkable as one value, replayable as plain JSON) and run by an
interpreter next to an explicit model: expected[leaf] = sum of the true contributions of all backward calls
since the leaf was last reset, contributions computed by finite differences of a NumPy re-evaluation of the
recorded expressions."""
import numpy as np
from hypothesis import strategies as st

from .. import fd, gen
from ..core import SubCheck, Violation
from ..env import sg

Tensor = sg.Tensor
nn = sg.nn

RULE = ("histories: command lists over 3 shared leaves (two of them Parameters of a Module, two handed to an "
        "Optimizer, optionally one that does not require grad): build(op, operands = any earlier node incl. former "
        "roots and interior nodes), backward(any node incl. a leaf, g) inside or outside retain_grads(), "
        "retain_grad(interior), reset via tensor.zero_() / module.zero_grad() / optimizer.zero_grad().  Oracle: "
        "model expected[leaf] (None until reached or zeroed, then the float64 sum of finite-difference VJP "
        "contributions since the last reset) compared after EVERY step; leaves not reachable from a call's root "
        "must be byte-identical (data and grad).  non-trivial: two backward calls reach a common leaf with no "
        "reset in between AND (the second root contains/is a former root or interior node, or an interior node is "
        "retained and backward repeated, or backward is called on a leaf); distinct by hash of the history")
ASSUMPTIONS = ["contributions are finite-difference VJPs (h=1e-6) of a NumPy re-evaluation of the recorded "
               "expression (ops restricted to the smooth element-wise set decided by C01)",
               "retained non-leaf gradients are not asserted (the statement is about leaves and about leaks)"]

UN = ["tanh", "sigmoid", "exp4", "neg", "mulc", "sq", "getitem", "reshape", "squeeze", "clone", "pow2", "transpose", "flatten", "unbind0", "unbind0"]
BIN = ["add", "mul", "sub", "addsum", "unbind", "concat", "meanmul", "stackidx", "div1"]


@st.composite
def histories(draw):
    shape = draw(st.sampled_from([[2], [2], [2, 2], [], [3], [1, 2]]))
    n = 1
    for s in shape:
        n *= s
    leaves = [[draw(st.integers(-12, 12)) / 8.0 for _ in range(n)] for _ in range(3)]
    frozen = draw(st.sampled_from([None, None, None, 0, 2]))
    steps = []
    for _ in range(draw(st.integers(2, 14))):
        kind = draw(st.sampled_from(["build", "build", "build", "backward", "backward", "backward", "retain",
                                     "zero_tensor", "zero_module", "zero_optim", "overflow"]))
        if kind == "build":
            if draw(st.booleans()):
                steps.append({"k": "build", "op": draw(st.sampled_from(UN)), "a": draw(st.integers(0, 30)),
                              "c": draw(st.sampled_from([2.0, -1.5, 0.5, 3.0])), "ctx": draw(st.integers(0, 3)) == 0})
            else:
                steps.append({"k": "build", "op": draw(st.sampled_from(BIN)), "a": draw(st.integers(0, 30)),
                              "b": draw(st.integers(0, 30)), "ctx": draw(st.integers(0, 3)) == 0})
        elif kind == "backward":
            steps.append({"k": "backward", "n": draw(st.integers(0, 30)), "ctx": draw(st.integers(0, 3)) == 0,
                          "g": [draw(st.integers(-8, 8)) / 4.0 for _ in range(4)],
                          "newest": draw(st.booleans()),
                          # the seed may be the live .grad handle of some tensor that currently holds a gradient
                          "gsrc": draw(st.one_of(st.none(), st.none(), st.integers(0, 30)))})
        elif kind == "retain":
            steps.append({"k": "retain", "n": draw(st.integers(0, 30))})
        elif kind == "zero_tensor":
            steps.append({"k": "zero_tensor", "n": draw(st.integers(0, 2))})
        elif kind == "overflow":
            steps.append({"k": "overflow", "n": draw(st.integers(0, 2))})
        else:
            steps.append({"k": kind})
    return {"shape": shape, "leaves": leaves, "frozen": frozen, "steps": steps}


def np_eval(nodes, k, leaf_arrays, cache=None):
    cache = {} if cache is None else cache
    if k in cache:
        return cache[k]
    nd = nodes[k]
    if nd["op"] == "leaf":
        v = leaf_arrays[k]
    else:
        a = np_eval(nodes, nd["a"], leaf_arrays, cache)
        op = nd["op"]
        if op == "tanh":
            v = np.tanh(a)
        elif op == "sigmoid":
            v = 1 / (1 + np.exp(-a))
        elif op == "exp4":
            v = np.exp(a * 0.25)
        elif op == "neg":
            v = -a
        elif op == "mulc":
            v = a * nd["c"]
        elif op in ("sq", "pow2"):
            v = a * a
        elif op == "getitem":
            v = a * 1.5
        elif op in ("reshape", "squeeze", "clone", "transpose", "flatten", "unbind0"):
            v = a.copy()
        else:
            b = np_eval(nodes, nd["b"], leaf_arrays, cache)
            v = {"add": lambda: a + b, "mul": lambda: a * b, "sub": lambda: a - b,
                 "addsum": lambda: a.sum() + b, "unbind": lambda: a * 2.0 + b, "concat": lambda: a.copy(),
                 "meanmul": lambda: a.mean() * b, "stackidx": lambda: b * 3.0 - a,
                 "div1": lambda: a / (b * b + 1.0)}[op]()
    cache[k] = v
    return v


def sg_build(nd, tens):
    a = tens[nd["a"]]
    op = nd["op"]
    if op == "tanh":
        return sg.tanh(a)
    if op == "sigmoid":
        return sg.sigmoid(a)
    if op == "exp4":
        return (a * 0.25).exp()
    if op == "neg":
        return -a
    if op == "mulc":
        return a * nd["c"]
    if op == "sq":
        return a * a
    if op == "pow2":
        return a ** 2
    if op == "getitem":
        return a[...] * 1.5
    if op == "reshape":
        return a.reshape((-1,)).reshape(tuple(a.shape))
    if op == "squeeze":
        return a.unsqueeze(0).squeeze(0)
    if op == "clone":
        return a.clone()
    if op == "transpose":
        return a.transpose(0, -1).transpose(-1, 0) if a.ndim >= 1 else a.clone()
    if op == "flatten":
        return a.flatten().reshape(tuple(a.shape))
    if op == "unbind0":
        if a.ndim == 0:
            return a.clone()
        return sg.stack(list(sg.unbind(a, 0)), 0)
    b = tens[nd["b"]]

    def unbind_():
        lst = [a, b]
        parts = sg.unbind(sg.stack(lst, 0), 0)
        lst.clear()                          # the caller re-uses its list: the recorded graph must not follow it
        return parts[0] * 2.0 + parts[1]

    def concat_():
        if a.ndim == 0:
            return sg.concat([a.unsqueeze(0), b.unsqueeze(0)], 0)[0]
        lst = [a, b]
        out = sg.concat(lst, 0)[:a.shape[0]]
        lst[:] = [b, a]
        return out

    def stackidx_():
        lst = [a, b]
        st_ = sg.stack(lst, -1)          # (..., 2)
        lst.pop()
        return st_[..., 1] * 3.0 - st_[..., 0]

    return {"add": lambda: a + b, "mul": lambda: a * b, "sub": lambda: a - b, "addsum": lambda: a.sum() + b,
            "unbind": unbind_, "concat": concat_, "meanmul": lambda: a.mean() * b, "stackidx": stackidx_,
            "div1": lambda: a / (b * b + 1.0)}[op]()


def reach(nodes, k, rq, memo):
    """set of leaves reachable from node k through requires-grad paths"""
    if k in memo:
        return memo[k]
    nd = nodes[k]
    if nd["op"] == "leaf":
        r = {k} if rq[k] else set()
    else:
        r = set()
        for key in ("a", "b"):
            if key in nd and rq[nd[key]]:
                r |= reach(nodes, nd[key], rq, memo)
    memo[k] = r
    return r


def check_history(c, rec):
    shape = tuple(c["shape"])
    leaf_arr = [np.array(v, dtype=np.float64).reshape(shape) for v in c["leaves"]]
    frozen = c["frozen"]
    leaves = []
    for i in range(3):
        t = Tensor(leaf_arr[i].copy(), requires_grad=(i != frozen))
        leaves.append(nn.Parameter(t) if i < 2 else t)

    class Inner(nn.Module):
        def __init__(self, p):
            super().__init__()
            self.p = p

    class Mid(nn.Module):
        def __init__(self, p):
            super().__init__()
            self.deep = Inner(p)

    class Holder(nn.Module):
        def __init__(self):
            super().__init__()
            self.p0 = leaves[0]
            self.branch = Mid(leaves[1])        # the second parameter sits two levels down

    module = Holder()
    optim = sg.optim.SGD([leaves[1], leaves[2]], lr=0.1)
    nodes = [{"op": "leaf"} for _ in range(3)]
    tens = list(leaves)
    rq = [t.requires_grad for t in tens]          # model of requires_grad per node
    expected = [None, None, None]
    since_reset_calls = [0, 0, 0]                  # backward calls reaching leaf i since last reset
    was_root = set()
    retained = set()
    nontrivial = False
    tags = set()
    memo = {}

    def verify(step_no, what):
        for i in range(3):
            gr = leaves[i].grad
            e = expected[i]
            if isinstance(e, str):          # "nonfinite": an overflowed gradient, nothing to compare until the next reset
                continue
            if e is None:
                if gr is not None:
                    raise Violation("leaf_grad_unexpected", f"step {step_no} ({what}): leaf {i} has a gradient "
                                    f"{np.asarray(gr.data).ravel().tolist()} although no backward call reached it and it "
                                    f"was never zeroed; history={c['steps'][:step_no + 1]}")
                continue
            if gr is None:
                raise Violation("leaf_grad_missing", f"step {step_no} ({what}): leaf {i} has no gradient, expected "
                                                     f"{e.ravel().tolist()}; history={c['steps'][:step_no + 1]}")
            got = np.asarray(gr.data, dtype=np.float64)
            if got.shape != e.shape:
                raise Violation("leaf_grad_shape", f"step {step_no} ({what}): leaf {i} grad shape {got.shape} != {e.shape}")
            scale = max(1.0, float(np.abs(e).max()))
            if not np.all(np.isfinite(got)) or np.abs(got - e).max() > 1e-5 * scale:
                raise Violation("leaf_grad_value",
                                f"step {step_no} ({what}): leaf {i} .grad = {got.ravel().tolist()} but the sum of true "
                                f"contributions since its last reset is {e.ravel().tolist()}; leaves={c['leaves']} "
                                f"shape={c['shape']} frozen={frozen} history={c['steps'][:step_no + 1]}")

    for si, st_ in enumerate(c["steps"]):
        k = st_["k"]
        if k == "build":
            nd = {"op": st_["op"], "a": st_["a"] % len(nodes)}
            if "b" in st_:
                nd["b"] = st_["b"] % len(nodes)
            if "c" in st_:
                nd["c"] = st_["c"]
            # keep magnitudes tame: skip products that would blow up the FD scale
            val = np_eval(nodes + [nd], len(nodes), leaf_arr)
            if not np.all(np.abs(val) < 50):
                continue
            if st_["ctx"]:
                with sg.retain_grads():
                    t = sg_build(nd, tens)
            else:
                t = sg_build(nd, tens)
            nodes.append(nd)
            tens.append(t)
            rq.append(any(rq[nd[key]] for key in ("a", "b") if key in nd))
            if t.requires_grad != rq[-1]:
                raise Violation("requires_grad_flag", f"node built by {nd} has requires_grad={t.requires_grad}, model {rq[-1]}")
            verify(si, "build")
        elif k == "backward":
            n = (len(nodes) - 1) if st_["newest"] else st_["n"] % len(nodes)
            if not rq[n]:
                continue
            t = tens[n]
            g = gen.cyc(st_["g"], t.shape, np.float64)
            seed_t = None
            if st_.get("gsrc") is not None:
                src = tens[st_["gsrc"] % len(tens)]
                if src.requires_grad and src.has_grad() and tuple(src.shape) == tuple(t.shape):
                    with np.errstate(all="ignore"):
                        handle = src.grad
                    if np.all(np.isfinite(handle.data)):
                        seed_t = handle                      # not a copy: whatever the library hands out
                        g = np.array(handle.data, dtype=np.float64)
                        tags.add("seed_is_a_live_grad_handle")
            memo.clear()
            rset = reach(nodes, n, rq, memo)
            # contributions by finite differences of the NumPy re-evaluation
            want = fd.fd_vjp(lambda arrs: np.asarray(np_eval(nodes, n, arrs), dtype=np.float64), leaf_arr, g,
                             sorted(rset))
            before = [(leaves[i].data.tobytes(), None if leaves[i].grad is None else leaves[i].grad.data.tobytes())
                      for i in range(3)]
            try:
                seed_arg = seed_t if seed_t is not None else Tensor(g.copy())
                if st_["ctx"]:
                    with sg.retain_grads():
                        t.backward(seed_arg)
                else:
                    t.backward(seed_arg)
            except Exception as e:  # noqa: BLE001
                raise Violation("backward_raised", f"step {si}: backward on node {n} raised {type(e).__name__}: {e}; "
                                                   f"history={c['steps'][:si + 1]}")
            for i in range(3):
                if i in rset and isinstance(expected[i], str):
                    continue
                if i in rset:
                    if since_reset_calls[i] >= 1:
                        second_special = (n < 3) or (n in was_root) or any(
                            (m in was_root or m in retained) for m in _ancestors(nodes, n) if m >= 3) or n in retained
                        if second_special:
                            nontrivial = True
                    since_reset_calls[i] += 1
                    expected[i] = (np.zeros(shape) if expected[i] is None else expected[i]) + want[i]
                else:
                    after = (leaves[i].data.tobytes(), None if leaves[i].grad is None else leaves[i].grad.data.tobytes())
                    if after != before[i]:
                        raise Violation("unreachable_leaf_changed", f"step {si}: backward on node {n} changed leaf {i}, "
                                                                    f"which is not reachable from it; history={c['steps'][:si + 1]}")
            was_root.add(n)
            tags.add("backward_on_leaf" if n < 3 else "backward_on_node")
            verify(si, f"backward(node {n})")
        elif k == "retain":
            n = st_["n"] % len(nodes)
            if n >= 3 and rq[n]:
                tens[n].retain_grad()
                retained.add(n)
                tags.add("retain_grad")
        elif k == "overflow":
            # a legitimately infinite gradient (finite data, overflow in the chain rule): (leaf * 1e200) * 1e200
            i = st_["n"]
            if not leaves[i].requires_grad:
                continue
            with np.errstate(all="ignore"):
                ((leaves[i] * 1e200) * 1e200).sum().backward()
            expected[i] = "nonfinite"
            tags.add("nonfinite_gradient_before_reset")
        elif k == "zero_tensor":
            i = st_["n"]
            leaves[i].zero_()
            expected[i] = np.zeros(shape)
            since_reset_calls[i] = 0
            verify(si, "tensor.zero_()")
        elif k == "zero_module":
            module.zero_grad()
            for i in (0, 1):
                if leaves[i].requires_grad:
                    expected[i] = np.zeros(shape)
                    since_reset_calls[i] = 0
                # what zero_grad does to a frozen parameter is not specified: re-sync the model
                elif leaves[i].grad is not None:
                    expected[i] = np.asarray(leaves[i].grad.data, dtype=np.float64).copy()
            verify(si, "module.zero_grad()")
        elif k == "zero_optim":
            optim.zero_grad()
            for i in (1, 2):
                if leaves[i].requires_grad:
                    expected[i] = np.zeros(shape)
                    since_reset_calls[i] = 0
                elif leaves[i].grad is not None:
                    expected[i] = np.asarray(leaves[i].grad.data, dtype=np.float64).copy()
                else:
                    expected[i] = None
            verify(si, "optimizer.zero_grad()")
    rec.nontrivial(nontrivial)
    rec.tag(*sorted(tags))


def _ancestors(nodes, n):
    out = set()
    stack = [n]
    while stack:
        k = stack.pop()
        nd = nodes[k]
        for key in ("a", "b"):
            if key in nd and nd[key] not in out:
                out.add(nd[key])
                stack.append(nd[key])
    return out


# ---- the same histories generated by a Hypothesis rule-based state machine -------------------------------------
def history_machine(run_case):
    """RuleBasedStateMachine whose rules append commands; an invariant re-runs the interpreter+model on the history so
    far (run_case raises Violation).  The failing history is the replay case of the ordinary `histories` sub-check."""
    from hypothesis.stateful import RuleBasedStateMachine, initialize, invariant, precondition, rule

    G = st.lists(st.integers(-8, 8).map(lambda v: v / 4.0), min_size=4, max_size=4)
    IDX = st.sampled_from(list(range(31)))

    class HistoryMachine(RuleBasedStateMachine):
        def __init__(self):
            super().__init__()
            self.case = None
            self.nodes = 3
            self.dirty = False

        @initialize(shape=st.sampled_from([[2], [2, 2], [], [3], [1, 2]]), frozen=st.sampled_from([None, None, None, 0, 2]),
                    data=st.data())
        def start(self, shape, frozen, data):
            n = int(np.prod(shape)) if shape else 1
            leaves = [[data.draw(st.integers(-12, 12)) / 8.0 for _ in range(n)] for _ in range(3)]
            self.case = {"shape": shape, "leaves": leaves, "frozen": frozen, "steps": []}

        def _add(self, cmd):
            self.case["steps"].append(cmd)
            self.dirty = True

        @rule(op=st.sampled_from(UN), a=IDX, c=st.sampled_from([2.0, -1.5, 0.5, 3.0]), ctx=st.booleans())
        def build_unary(self, op, a, c, ctx):
            self._add({"k": "build", "op": op, "a": a, "c": c, "ctx": ctx})
            self.nodes += 1

        @rule(op=st.sampled_from(BIN), a=IDX, b=IDX, ctx=st.booleans())
        def build_binary(self, op, a, b, ctx):
            self._add({"k": "build", "op": op, "a": a, "b": b, "ctx": ctx})
            self.nodes += 1

        @rule(n=IDX, newest=st.booleans(), ctx=st.booleans(), g=G, gsrc=st.one_of(st.none(), IDX))
        def backward(self, n, newest, ctx, g, gsrc):
            self._add({"k": "backward", "n": n, "ctx": ctx, "g": g, "newest": newest, "gsrc": gsrc})

        @precondition(lambda self: self.nodes > 3)
        @rule(n=IDX)
        def retain(self, n):
            self._add({"k": "retain", "n": n})

        @rule(n=st.integers(0, 2))
        def zero_tensor(self, n):
            self._add({"k": "zero_tensor", "n": n})

        @rule()
        def zero_module(self):
            self._add({"k": "zero_module"})

        @rule()
        def zero_optim(self):
            self._add({"k": "zero_optim"})

        @rule(n=st.integers(0, 2))
        def overflow(self, n):
            self._add({"k": "overflow", "n": n})

        @invariant()
        def model_agrees(self):
            if self.case is not None and self.dirty:
                self.dirty = False
                run_case({"shape": self.case["shape"], "leaves": self.case["leaves"], "frozen": self.case["frozen"],
                          "steps": list(self.case["steps"])})

    return HistoryMachine


def subchecks():
    return [SubCheck("histories_rule_based", check_history, None, machine=history_machine, steps=14, quick=120, thorough=600,
                     shards_quick=4, shards_thorough=8),
            SubCheck("histories", check_history, histories, quick=700, thorough=3000, shards_quick=8, shards_thorough=16)][::-1]
