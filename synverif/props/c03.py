"""C03 - gradients of arbitrary op compositions obey the chain rule on any DAG.

A case is a raw program (instructions with raw operand numbers); `resolve` turns it into an SSA program with
concrete operands by executing it once (shape tracking, magnitude guard).  The SSA program is then (1) executed
with tracking and differentiated, compared with the finite-difference gradient of the whole program, (2)
re-executed in a drawn dependency-respecting permutation of its instructions, (3) observed through a wrapper
around BackwardFunction.__call__ (exactly-once, only reachable nodes, consumers before producers)."""
import numpy as np
from hypothesis import strategies as st

from .. import fd, gen
from ..core import SubCheck, Violation
from ..env import sg
from .c17 import CallLog

Tensor = sg.Tensor

RULE = ("programs: 2-25 (40 thorough) instructions over 1-4 leaves (shapes from a small pool, a drawn subset requires "
        "grad): element-wise/broadcast arithmetic, smooth unary ops, reductions with keepdims, matmul, reshape/"
        "transpose/movedim/unsqueeze/squeeze/flatten, concat/stack/unbind (all outputs available), slicing, "
        "log_softmax/softmax, linear; operands chosen among ALL earlier nodes (fan-out, diamonds, x op x, several "
        "outputs of one unbind); root = a drawn node that requires grad; arbitrary g; a drawn dependency-respecting "
        "permutation of the construction order.  Oracle: finite-difference gradient of the whole program; "
        "permuted construction gives the same gradients; call log of BackwardFunction.__call__: reachable nodes "
        "exactly once, unreachable never, consumers before producers.  non-trivial: the differentiable sub-graph "
        "has a node with >=2 reachable consumers or a multi-output op, and depth >= 3; distinct by program hash"
        " Also: nn ops in programs, shared batch-norm buffers, caller-mutated operand lists, Parameter leaves; round 4: the graph is grown above the old root and differentiated again with the old root's live .grad handle as upstream gradient (leaves must hold 5 x the first gradient)."
        " Round 5: leaves copy-constructed from other leaves (Tensor(t), nn.Parameter(t)).")
ASSUMPTIONS = ["finite differences (h=1e-6) of synapgrad's own forward re-executed under no_grad in float64; tolerance 2e-5*scale",
               "ops are restricted to those that are smooth on the generated values (no ties/kinks)"]

LEAF_SHAPES = [[], [3], [2, 3], [3, 2], [2, 2, 3], [1, 3], [3, 3], [2, 1]]
UNARY = ["tanh", "sigmoid", "neg", "mulc", "sq", "clone", "exp_b", "log1p_sq", "sqrt1p_sq", "addc"]
BINARY = ["add", "mul", "sub", "div1"]
SHAPE = ["reshape_flat", "transpose", "movedim", "unsqueeze", "squeeze", "flatten"]
OTHER = ["sum", "mean", "matmul", "concat", "stack", "unbind", "getitem", "log_softmax", "softmax", "linear", "mse_loss",
         "batch_norm", "bce_logits", "addmm", "bn_shared"]
ALL_OPS = UNARY + BINARY * 3 + SHAPE + OTHER * 2


OPERAND = st.sampled_from(list(range(61)))


@st.composite
def programs(draw, max_len=25):
    k = draw(st.integers(1, 4))
    leaves = []
    for _ in range(k):
        shp = draw(st.sampled_from(LEAF_SHAPES))
        leaves.append({"shape": shp, "v": draw(gen.grid(shp, -12, 12)), "rg": draw(st.booleans()),
                       "param": draw(st.sampled_from([False, False, True]))})
    if not any(l["rg"] for l in leaves):
        leaves[draw(st.integers(0, k - 1))]["rg"] = True
    if k >= 2 and draw(st.integers(0, 3)) == 0:
        # one leaf is copy-constructed from another (Tensor(t) / nn.Parameter(t)): two objects, two leaves of the
        # graph, equal values - each receives its own derivative
        j = draw(st.integers(1, k - 1))
        i = draw(st.integers(0, j - 1))
        leaves[j] = dict(leaves[i], copy_of=i, copy_kind=draw(st.sampled_from(["Tensor", "Parameter"])), param=False)
    n = draw(st.integers(4, max_len))
    instrs = [{"op": draw(st.sampled_from(ALL_OPS)), "a": draw(OPERAND), "b": draw(OPERAND),
               "p": draw(st.integers(0, 11)), "q": draw(st.integers(0, 11))} for _ in range(n)]
    return {"leaves": leaves, "instrs": instrs, "root": draw(OPERAND), "g": draw(gen.upstream()),
            "prio": draw(st.lists(st.integers(0, 1000), min_size=n, max_size=n)), "extend": draw(st.booleans())}


# ---- one op application (used for resolve, tracked run, FD re-execution) -----------------------------
def apply_op(op, xs, prm):
    a = xs[0]
    if op == "tanh":
        return sg.tanh(a)
    if op == "sigmoid":
        return sg.sigmoid(a)
    if op == "neg":
        return -a
    if op == "mulc":
        return a * prm["c"]
    if op == "addc":
        return a + prm["c"]
    if op == "sq":
        return a * a
    if op == "clone":
        return a.clone()
    if op == "exp_b":
        return sg.exp(a)
    if op == "log1p_sq":
        return sg.log(a * a + 1.0)
    if op == "sqrt1p_sq":
        return sg.sqrt(a * a + 1.0)
    if op == "add":
        return a + xs[1]
    if op == "mul":
        return a * xs[1]
    if op == "sub":
        return a - xs[1]
    if op == "div1":
        return a / (xs[1] * xs[1] + 1.0)
    if op == "reshape_flat":
        return a.reshape((-1,))
    if op == "transpose":
        return a.transpose(prm["d0"], prm["d1"])
    if op == "movedim":
        return a.movedim(prm["d0"], prm["d1"])
    if op == "unsqueeze":
        return a.unsqueeze(prm["d0"])
    if op == "squeeze":
        return a.squeeze()
    if op == "flatten":
        return a.flatten()
    if op == "sum":
        return a.sum(prm["dim"], prm["keep"])
    if op == "mean":
        return a.mean(prm["dim"], prm["keep"])
    if op == "matmul":
        return a @ xs[1]
    if op == "concat":
        lst = [a, xs[1]]
        out = sg.concat(lst, prm["dim"])
        lst.clear()                      # the caller re-uses its list; the recorded op must not follow it
        return out
    if op == "stack":
        lst = [a, xs[1]]
        out = sg.stack(lst, prm["dim"])
        lst[:] = lst[::-1] + [a]
        return out
    if op == "bn_shared":
        # an eval-mode normalisation whose running-statistic tensors are updated by a later training-mode call
        C = a.shape[1]
        rm = Tensor(np.linspace(-0.5, 0.5, C))
        rv = Tensor(np.linspace(0.5, 1.5, C))
        out = sg.batch_norm(a, None, None, rm, rv, False)
        other = Tensor((np.arange(a.data.size, dtype=np.float64).reshape(a.shape) * 7 % 11) / 3.0)
        sg.batch_norm(other, None, None, rm, rv, True, 0.5)
        return out
    if op == "unbind":
        return sg.unbind(a, prm["dim"])
    if op == "getitem":
        return a[prm["key"]]
    if op == "log_softmax":
        return sg.log_softmax(a, prm["dim"])
    if op == "softmax":
        return sg.softmax(a, prm["dim"])
    if op == "linear":
        return sg.linear(a, xs[1])
    if op == "mse_loss":
        return sg.mse_loss(a, xs[1])
    if op == "bce_logits":
        # the target is a constant: only the symmetric loss (mse) promises a gradient for its second argument
        tgt = Tensor(((np.arange(a.data.size).reshape(a.shape) * 3 % 5) / 4.0).astype(a.dtype))
        return sg.binary_cross_entropy_with_logits(a, tgt)
    if op == "batch_norm":
        return sg.batch_norm(a)
    if op == "addmm":
        return sg.addmm(xs[2], a, xs[1])
    raise KeyError(op)


def resolve(case):
    """-> SSA program: list of {"op", "in": [node ids], "prm", "out": [node ids]} ; nodes 0..k-1 are the leaves"""
    with sg.no_grad():
        vals = [Tensor(gen.arr(l["v"], l["shape"], np.float64)) for l in case["leaves"]]
        ssa = []
        for ins in case["instrs"]:
            n = len(vals)
            # raw operand numbers >= 30 pick one of the three most recent nodes (deep graphs), smaller ones any node
            ia = (n - 1 - ins["a"] % min(3, n)) if ins["a"] >= 30 else ins["a"] % n
            ib = (n - 1 - ins["b"] % min(3, n)) if ins["b"] >= 30 else ins["b"] % n
            a, b = vals[ia], vals[ib]
            op = ins["op"]
            p, q = ins["p"], ins["q"]
            prm = {}
            inputs = [ia]
            nd = a.ndim
            ok = True
            if op in ("mulc", "addc"):
                prm["c"] = [1.5, -0.5, 2.0, 0.25, -1.0, 3.0][p % 6]
            elif op in BINARY:
                try:
                    np.broadcast_shapes(a.shape, b.shape)
                    inputs = [ia, ib]
                except ValueError:
                    inputs = [ia, ia]
            elif op in ("transpose", "movedim"):
                if nd == 0:
                    ok = False
                else:
                    prm["d0"], prm["d1"] = p % nd - (nd if q % 2 else 0), q % nd
            elif op == "unsqueeze":
                prm["d0"] = p % (nd + 1) - ((nd + 1) if q % 2 else 0)
            elif op in ("sum", "mean"):
                if nd == 0 or p % 4 == 0:
                    prm["dim"], prm["keep"] = None, False
                else:
                    prm["dim"], prm["keep"] = p % nd - (nd if q % 2 else 0), bool(q % 3 == 0)
            elif op == "matmul":
                if nd >= 2 and b.ndim >= 2 and a.shape[-1] == b.shape[-2]:
                    inputs = [ia, ib]
                elif nd >= 2:
                    # a @ a^T is always type-correct
                    op = "matmul_t"
                else:
                    ok = False
            elif op in ("concat", "stack"):
                if nd == 0 and op == "concat":
                    ok = False
                else:
                    same = tuple(a.shape) == tuple(b.shape)
                    inputs = [ia, ib] if same else [ia, ia]
                    if op == "concat":
                        prm["dim"] = p % nd - (nd if q % 2 else 0)
                    else:
                        prm["dim"] = p % (nd + 1) - ((nd + 1) if q % 2 else 0)
            elif op == "unbind":
                if nd == 0:
                    ok = False
                else:
                    prm["dim"] = p % nd - (nd if q % 2 else 0)
            elif op == "getitem":
                if nd == 0:
                    ok = False
                else:
                    keys = [0, -1, slice(None, None, 2), slice(None, None, -1), (Ellipsis, 0), (slice(0, 1),), [0, 0],
                            ((0, 0, -1),), (np.array([0, 0]),), ((0, -1, 0), Ellipsis)]
                    prm["key"] = keys[p % len(keys)]
            elif op in ("log_softmax", "softmax"):
                if nd == 0:
                    ok = False
                else:
                    prm["dim"] = p % nd - (nd if q % 2 else 0)
            elif op == "linear":
                if nd >= 2 and b.ndim == 2 and b.shape[1] == a.shape[-1]:
                    inputs = [ia, ib]
                else:
                    ok = False
            elif op == "mse_loss":
                inputs = [ia, ib] if tuple(a.shape) == tuple(b.shape) else [ia, ia]
            elif op == "bn_shared":
                if nd < 2 or a.data.size // a.shape[1] < 2:
                    ok = False
            elif op == "batch_norm":
                # training-mode normalisation over all dims but 1: needs >= 2 values per channel, pairwise distinct data
                if nd < 2 or a.data.size // a.shape[1] < 2 or np.unique(a.data).size < a.data.size:
                    ok = False
            elif op == "addmm":
                if nd == 2 and b.ndim == 2 and a.shape[1] == b.shape[0]:
                    bias_id = ins["q"] % n
                    bias = vals[bias_id]
                    try:
                        np.broadcast_shapes(bias.shape, (a.shape[0], b.shape[1]))
                        okb = len(np.broadcast_shapes(bias.shape, (a.shape[0], b.shape[1]))) == 2
                    except ValueError:
                        okb = False
                    inputs = [ia, ib, bias_id] if okb else [ia, ib, ia] if tuple(a.shape) == (a.shape[0], b.shape[1]) else None
                    if inputs is None:
                        ok = False
                else:
                    ok = False
            if not ok:
                op, prm, inputs = "tanh", {}, [ia]
            try:
                if op == "matmul_t":
                    res = a @ a.transpose(-1, -2)
                else:
                    res = apply_op(op, [vals[i] for i in inputs], prm)
            except Exception:  # noqa: BLE001 - not applicable after all: use a safe op instead
                op, prm, inputs = "tanh", {}, [ia]
                res = apply_op(op, [a], prm)
            outs = list(res) if isinstance(res, (tuple, list)) else [res]
            if any((not np.all(np.isfinite(o.data))) or (o.data.size and np.abs(o.data).max() > 40) for o in outs) or \
                    any(o.data.size == 0 or o.data.size > 200 for o in outs):
                op, prm, inputs = "tanh", {}, [ia]
                outs = [apply_op(op, [a], prm)]
            ids = list(range(len(vals), len(vals) + len(outs)))
            vals.extend(outs)
            ssa.append({"op": op, "in": inputs, "prm": prm, "out": ids})
    return ssa, [tuple(v.shape) for v in vals]


def execute(case, ssa, order, leaf_arrays, track, rg=None):
    """runs the SSA instructions in `order`; returns dict node id -> Tensor"""
    k = len(case["leaves"])
    nodes = {}
    for i in range(k):
        src = case["leaves"][i].get("copy_of")
        if src is not None and track and np.array_equal(leaf_arrays[i], leaf_arrays[src]):
            # (only in the tracked run: the finite-difference runs perturb the two leaves independently)
            nodes[i] = (Tensor if case["leaves"][i]["copy_kind"] == "Tensor" else sg.nn.Parameter)(nodes[src])
            continue
        nodes[i] = Tensor(np.array(leaf_arrays[i], dtype=np.float64), requires_grad=bool(track and rg[i]))
        if case["leaves"][i].get("param"):
            nodes[i] = sg.nn.Parameter(nodes[i])      # a Tensor subclass must behave like a Tensor in any position
    for j in order:
        ins = ssa[j]
        xs = [nodes[i] for i in ins["in"]]
        if ins["op"] == "matmul_t":
            res = xs[0] @ xs[0].transpose(-1, -2)
        else:
            res = apply_op(ins["op"], xs, ins["prm"])
        outs = list(res) if isinstance(res, (tuple, list)) else [res]
        for oid, o in zip(ins["out"], outs):
            nodes[oid] = o
    return nodes


def topo_order(ssa, prio, k):
    produced = set(range(k))
    remaining = list(range(len(ssa)))
    order = []
    while remaining:
        ready = [j for j in remaining if all(i in produced for i in ssa[j]["in"])]
        j = min(ready, key=lambda t: (prio[t % len(prio)], t))
        order.append(j)
        remaining.remove(j)
        produced.update(ssa[j]["out"])
    return order


def check_program(c, rec):
    k = len(c["leaves"])
    ssa, shapes = resolve(c)
    rg = [l["rg"] for l in c["leaves"]]
    # model of requires_grad per node and producers
    req = {i: rg[i] for i in range(k)}
    producer = {}
    for j, ins in enumerate(ssa):
        r = any(req[i] for i in ins["in"])
        for o in ins["out"]:
            req[o] = r
            producer[o] = j
    cand = [i for i in sorted(req) if req[i] and i >= k]
    if not cand:
        rec.skip = "no_differentiable_node"
        return
    # raw root numbers >= 20 pick one of the three most recent differentiable nodes
    root = cand[-1 - c["root"] % min(3, len(cand))] if c["root"] >= 20 else cand[c["root"] % len(cand)]
    leaf_arrays = [gen.arr(l["v"], l["shape"], np.float64) for l in c["leaves"]]
    g = gen.cyc(c["g"], shapes[root], np.float64)
    ident = list(range(len(ssa)))
    prog = [(s["op"], s["in"], {kk: (str(v) if isinstance(v, slice) else v) for kk, v in s["prm"].items()}) for s in ssa]
    ctx = f"leaves={[(l['shape'], l['rg']) for l in c['leaves']]} root=node{root} program={prog}"

    # ---- reachability (differentiable sub-graph of the root) -------------------------------------------
    reach_nodes = set()
    stack = [root]
    depth = {root: 0}
    while stack:
        nid = stack.pop()
        if nid in reach_nodes:
            continue
        reach_nodes.add(nid)
        if nid >= k:
            for i in ssa[producer[nid]]["in"]:
                if req[i]:
                    depth[i] = max(depth.get(i, 0), depth[nid] + 1)
                    stack.append(i)
    reach_instr = {producer[nid] for nid in reach_nodes if nid >= k}
    consumers = {}
    for j in reach_instr:
        # an instruction is a reachable consumer only through outputs that are reachable
        for i in set(ssa[j]["in"]):
            if i in reach_nodes:
                consumers.setdefault(i, set()).add(j)
    fan = max([len(v) for v in consumers.values()] or [0])
    same_twice = any(len(ssa[j]["in"]) == 2 and ssa[j]["in"][0] == ssa[j]["in"][1] for j in reach_instr)
    multi = any(ssa[j]["op"] == "unbind" for j in reach_instr)
    maxdepth = max(depth.values() or [0])
    rec.nontrivial((fan >= 2 or multi or same_twice) and maxdepth >= 3)
    rec.tag(f"fanout{min(fan, 4)}", "multi_output" if multi else "single_output", "mixed_rg" if not all(rg) else "all_rg",
            f"depth{min(maxdepth, 8)}", "same_tensor_twice" if same_twice else "distinct_operands")

    # ---- (1) tracked run + backward, observed ------------------------------------------------------------
    nodes = execute(c, ssa, ident, leaf_arrays, True, rg)
    for nid, t in nodes.items():
        if t.requires_grad != req[nid]:
            raise Violation("requires_grad_flag", f"node{nid} requires_grad={t.requires_grad}, expected {req[nid]}; {ctx}")
    fn_of = {}
    for nid, t in nodes.items():
        if nid >= k and t.grad_fn is not None:
            fn_of[id(t.grad_fn)] = nid
    order_log = []
    with CallLog() as log:
        orig_wrapped = sg.functional.BackwardFunction.__call__

        def spy(bf):
            order_log.append(id(bf))
            return orig_wrapped(bf)
        sg.functional.BackwardFunction.__call__ = spy
        try:
            nodes[root].backward(Tensor(g.copy()))
        except Exception as e:  # noqa: BLE001
            raise Violation("backward_raised", f"backward raised {type(e).__name__}: {e}; {ctx}")
    dup = [v for v in log.calls.values() if v != 1]
    if dup:
        raise Violation("visited_twice", f"a backward function was invoked {max(dup)} times in one backward call; {ctx}")
    called_nodes = {fn_of[f] for f in log.calls if f in fn_of}
    for nid in fn_of.values():
        if nid in reach_nodes and nid not in called_nodes:
            raise Violation("not_visited", f"node{nid} is on a differentiable path to the root but its backward function never ran; {ctx}")
        if nid not in reach_nodes and nid in called_nodes:
            raise Violation("visited_unreachable", f"node{nid} is not reachable from the root but its backward function ran; {ctx}")
    pos = {}
    for idx, f in enumerate(order_log):
        if f in fn_of:
            pos[fn_of[f]] = idx
    for nid in reach_nodes:
        if nid < k or nid not in pos:
            continue
        for j in consumers.get(nid, ()):          # every reachable consumer instruction must have run before nid
            for o in ssa[j]["out"]:
                if o in reach_nodes and o in pos and pos[o] > pos[nid]:
                    raise Violation("order", f"node{nid}'s backward ran before that of its consumer node{o}; {ctx}")

    # ---- FD gradient of the whole program -----------------------------------------------------------------
    def f(arrs):
        with sg.no_grad():
            return execute(c, ssa, ident, arrs, False)[root].data
    which = [i for i in range(k) if rg[i]]
    try:
        want = fd.fd_vjp(f, leaf_arrays, g, which)
    except fd.FwdDtype:
        rec.skip = "fwd_not_float64"
        return
    got = {}
    for i in range(k):
        gr = nodes[i].grad
        if not rg[i]:
            if gr is not None:
                raise Violation("grad_on_nonrequiring", f"leaf {i} does not require grad but has .grad; {ctx}")
            continue
        if i not in reach_nodes:
            if gr is not None and np.any(np.asarray(gr.data) != 0):
                raise Violation("unreachable_leaf_grad", f"leaf {i} is not reachable from the root but has a non-zero gradient; {ctx}")
            continue
        if gr is None:
            raise Violation("grad_missing", f"leaf {i} has no gradient; {ctx}")
        ok, err, scale = fd.close(gr.data, want[i], np.float64, f64_tol=2e-5)
        if not ok:
            raise Violation("grad_value", f"leaf {i}: |grad - finite differences| = {err:.3e} (scale {scale:.3g}): grad="
                                          f"{np.asarray(gr.data).ravel()[:5].tolist()} fd={want[i].ravel()[:5].tolist()}; {ctx}")
        got[i] = np.array(gr.data, dtype=np.float64)          # a copy: the buffer itself keeps accumulating

    # ---- (2) permuted construction order ------------------------------------------------------------------
    order = topo_order(ssa, c["prio"], k)
    if order != ident:
        rec.tag("permuted")
        nodes2 = execute(c, ssa, order, leaf_arrays, True, rg)
        nodes2[root].backward(Tensor(g.copy()))
        for i, gi in got.items():
            g2 = np.asarray(nodes2[i].grad.data, dtype=np.float64)
            if g2.shape != gi.shape or np.abs(g2 - gi).max(initial=0.0) > 1e-9 * max(1.0, np.abs(gi).max(initial=0.0)):
                raise Violation("order_dependence", f"leaf {i}: gradient depends on the construction order of independent "
                                                    f"branches: {gi.ravel()[:5].tolist()} vs {g2.ravel()[:5].tolist()} "
                                                    f"(order {order}); {ctx}")


    # ---- (3) the graph grows above the old root; the old root's live .grad handle is the new upstream gradient ---
    if c.get("extend") and got:
        r = nodes[root]
        h = r.grad
        if h is not None:
            rec.tag("extended_above_old_root")
            z = r * 3.0 + r                       # the old root is now an interior node with two consumers
            try:
                z.backward(h)
            except Exception as e:  # noqa: BLE001
                raise Violation("backward_raised", f"backward of (root*3 + root) seeded with root.grad raised "
                                                   f"{type(e).__name__}: {e}; {ctx}")
            for i, gi in got.items():
                g3 = np.asarray(nodes[i].grad.data, dtype=np.float64)
                want3 = 5.0 * gi                  # leaves accumulate: first call + 4 x the same cotangent
                if g3.shape != want3.shape or np.abs(g3 - want3).max(initial=0.0) > 1e-9 * max(1.0, np.abs(want3).max(initial=0.0)):
                    raise Violation("grad_value", f"leaf {i}: after a second backward from (root*3 + root) seeded with the old "
                                                  f"root's own .grad the accumulated gradient is {g3.ravel()[:5].tolist()}, "
                                                  f"expected 5 x the first = {want3.ravel()[:5].tolist()}; {ctx}", region="extended")


def subchecks():
    return [SubCheck("programs", check_program, programs, quick=600, thorough=0, shards_quick=8, shards_thorough=1),
            SubCheck("programs_long", check_program, lambda: programs(40), quick=0, thorough=5000, shards_quick=1,
                     shards_thorough=16)]
