"""C02 - backward of every nn op/layer/loss yields the exact vector-Jacobian product."""
import numpy as np
from hypothesis import strategies as st

from .. import gen, gradcheck, nnops, ops
from ..core import SubCheck, Violation
from ..env import sg

Tensor = sg.Tensor
F = sg.nn.functional

RULE = ("cases: nn op/layer/loss (functional and module forms) x geometry/mode/reduction/dim x shapes x grid "
        "values in the op's domain (kinks excluded by construction) x {float32,float64} x requires-grad subsets of "
        "(data, weight, bias, gamma, beta, target) x arbitrary upstream gradient g.  Oracle: central finite "
        "differences (float64) of synapgrad's own forward contracted with g; kink sub-checks test subgradient "
        "membership.  non-trivial: output has >=2 elements AND g is not constant AND a non-default configuration "
        "(dim != 1 or rank != 2 for softmax; stride/padding/dilation/non-square/non-tiling for geometry ops; "
        "eval mode with running statistics or rank != 2 or partial affine for batch-norm; reduction != mean, "
        "module form or target requiring grad for losses); distinct by hash of the whole case"
        " Also: memory layouts, nn.Parameter operands, magnitudes x128 / x1/64, a second backward through the same graph, long batches with narrow integer label dtypes, rows at far-apart levels, an interleaved training-mode call on the same batch-norm buffers before backward, momentum 0, Neuron form."
        " Round 4: the same tensor as data and weight of conv1d/conv2d/linear (FD of x -> op(x, x)); softmax/log_softmax/Flatten modules used before on an input of another rank."
        " Round 5: a second backward(g) must add exactly the first (no finite differences involved); the graph is extended above the root and seeded with the root's live .grad."
        " Round 6: class labels counted from the end; biases of higher rank in F.linear on batched inputs.")
ASSUMPTIONS = ["finite-difference error <= 1e-8 relative on the value grids; tolerance 1e-5*scale (float64), "
               "2e-3*scale (float32)",
               "batch-norm running statistics are re-created per forward evaluation, dropout is re-seeded, so the "
               "differentiated function is pure",
               "forward rejected -> nothing asserted here (C06 owns acceptance)"]


# ---- kinks: relu family at exactly 0 -----------------------------------------------------------
@st.composite
def relu_kink_cases(draw):
    shp = draw(gen.shapes(0, 3, 40))
    v = draw(gen.grid(shp, -1, 1, 1.0))
    return {"shape": shp, "v": v, "which": draw(st.sampled_from(["relu", "leaky_relu", "selu"])),
            "slope": draw(st.sampled_from([0.01, 0.3, 0.0])), "g": draw(gen.upstream()), "dtype": draw(gen.DTYPES)}


def check_relu_kink(c, rec):
    dt = np.dtype(c["dtype"])
    x = gen.arr(c["v"], c["shape"], dt)
    t = Tensor(x.copy(), requires_grad=True)
    if c["which"] == "relu":
        out = F.relu(t); lo, hi = 0.0, 1.0
    elif c["which"] == "leaky_relu":
        out = F.leaky_relu(t, c["slope"]); lo, hi = c["slope"], 1.0
    else:
        out = F.selu(t); lo, hi = nnops.SELU_SCALE, nnops.SELU_SCALE * nnops.SELU_ALPHA
        lo, hi = min(lo, hi), max(lo, hi)
    g = gen.cyc(c["g"], out.shape, dt)
    out.backward(Tensor(g.copy()))
    grad = np.asarray(t.grad.data, dtype=np.float64)
    at0 = (x == 0)
    rec.nontrivial(bool(at0.any()))
    g64 = g.astype(np.float64)
    a, b = lo * g64, hi * g64
    lo_b, hi_b = np.minimum(a, b) - 1e-6, np.maximum(a, b) + 1e-6
    bad = at0 & ((grad < lo_b) | (grad > hi_b))
    if bad.any():
        i = tuple(np.argwhere(bad)[0])
        raise Violation("subgradient", f"{c['which']} at x=0: grad {grad[i]} not between the one-sided derivatives "
                                       f"[{lo},{hi}] times g={g64[i]}")


# ---- kinks: pooling with exact ties ------------------------------------------------------------
@st.composite
def pool_tie_cases(draw):
    a = draw(gen.axis_geom(kmax=3, smax=3, dmax=2, pmax=0, extra_max=3))
    N, C = draw(st.integers(1, 2)), draw(st.integers(1, 2))
    shp = [N, C, a["L"]]
    return {"shape": shp, "v": draw(gen.grid(shp, -1, 1, 1.0)), "k": a["k"], "s": a["s"], "d": a["d"],
            "g": draw(gen.upstream()), "dtype": draw(gen.DTYPES)}


def check_pool_tie(c, rec):
    dt = np.dtype(c["dtype"])
    x = gen.arr(c["v"], c["shape"], dt)
    t = Tensor(x.copy(), requires_grad=True)
    out = F.max_pool1d(t, c["k"], c["s"], 0, c["d"])
    g = gen.cyc(c["g"], out.shape, dt)
    out.backward(Tensor(g.copy()))
    grad = np.asarray(t.grad.data, dtype=np.float64)
    # a valid subgradient: grad = sum over windows of g_w * (convex weights on that window's arg-max set)
    # necessary conditions checked: (1) elements that are the maximum of no window get exactly 0,
    # (2) per (n,c): sum of grad == sum of g, (3) per window the mass on its arg-max set is feasible
    #     (checked exactly when windows do not overlap: stride >= dilated span)
    N, C, L = x.shape
    lw = out.shape[2]
    span = c["d"] * (c["k"] - 1) + 1
    ties = False
    is_max_somewhere = np.zeros(x.shape, bool)
    for j in range(lw):
        pos = [j * c["s"] + b * c["d"] for b in range(c["k"])]
        win = x[:, :, pos].astype(np.float64)
        mx = win.max(axis=2, keepdims=True)
        on = (win == mx)
        if (on.sum(axis=2) > 1).any():
            ties = True
        for b, p in enumerate(pos):
            is_max_somewhere[:, :, p] |= on[:, :, b]
        if c["s"] >= span:
            gsum = grad[:, :, pos]
            gw = g[:, :, j].astype(np.float64)
            if np.any(np.abs(np.where(on, 0, gsum)) > 1e-9):
                raise Violation("subgradient", f"max_pool1d: gradient on a non-maximal element of window {j}; {c}")
            if np.any(np.abs(np.where(on, gsum, 0).sum(axis=2) - gw) > 1e-5 * np.maximum(1, np.abs(gw))):
                raise Violation("subgradient", f"max_pool1d: gradient mass of window {j} != g; {c}")
    rec.nontrivial(ties)
    if np.any(grad[~is_max_somewhere] != 0):
        raise Violation("subgradient", f"max_pool1d: non-zero gradient on an element that is the maximum of no window; {c}")
    tot = grad.sum(axis=2)
    want = g.astype(np.float64).sum(axis=2)
    if np.any(np.abs(tot - want) > 1e-4 * np.maximum(1, np.abs(want))):
        raise Violation("subgradient", f"max_pool1d: total gradient {tot.tolist()} != total g {want.tolist()}; {c}")


# ---- the same tensor as data AND kernel of a convolution (auto-correlation) -------------------------------
@st.composite
def self_conv_cases(draw):
    dims = draw(st.sampled_from([1, 2, 0]))           # 0: linear(x, x) with a square x
    n, ci = draw(st.integers(1, 3)), draw(st.integers(1, 2))
    k = [draw(st.integers(1, 3)) for _ in range(dims)]
    shp = [n, ci] + k if dims else [n, n]
    return {"dims": dims, "shape": shp, "v": draw(gen.grid(shp, -16, 16)), "p": [draw(st.integers(0, 2)) for _ in range(dims)],
            "s": [draw(st.integers(1, 2)) for _ in range(dims)], "form": draw(st.sampled_from(["fn", "module"])),
            "bias": draw(st.booleans()), "g": draw(gen.upstream()), "dtype": draw(gen.DTYPES)}


def check_self_conv(c, rec):
    from .. import fd
    dt = np.dtype(c["dtype"])
    dims = c["dims"]
    s_ = c["s"][0] if dims == 1 else tuple(c["s"])
    p_ = c["p"][0] if dims == 1 else tuple(c["p"])
    bias_v = np.arange(c["shape"][0], dtype=np.float64) / 4.0 - 0.5

    def forward(x, b=None):
        if dims == 0:
            if c["form"] == "module":
                m = sg.nn.Linear(x.shape[1], x.shape[0], bias=c["bias"])
                m.weight = x
                if c["bias"]:
                    m.bias = b
                return m(x)
            return F.linear(x, x, b)
        if c["form"] == "module":
            cls = sg.nn.Conv1d if dims == 1 else sg.nn.Conv2d
            m = cls(x.shape[1], x.shape[0], x.shape[2] if dims == 1 else (x.shape[2], x.shape[3]), s_, p_, bias=c["bias"])
            m.weight = x
            if c["bias"]:
                m.bias = b
            return m(x)
        return (F.conv1d if dims == 1 else F.conv2d)(x, x, b, s_, p_)

    x = gen.arr(c["v"], c["shape"], dt)
    t = Tensor(x.copy(), requires_grad=True)
    b = Tensor(bias_v.astype(dt), requires_grad=True) if c["bias"] else None
    try:
        out = forward(t, b)
    except Exception:  # noqa: BLE001
        rec.skip = "forward_rejected"
        return
    rec.nontrivial(out.data.size >= 2)
    rec.tag(f"conv{dims}d" if dims else "linear", c["form"])
    g = gen.cyc(c["g"], out.shape, dt)
    try:
        out.backward(Tensor(g.copy()))
    except Exception as e:  # noqa: BLE001
        raise Violation("backward_raised", f"{'linear' if not dims else 'conv'}(x, x): backward raised {type(e).__name__}: {e}; {c}")

    def f64(xs):
        return np.asarray(forward(Tensor(xs[0].copy()), Tensor(bias_v.copy()) if c["bias"] else None).data)

    want = fd.fd_vjp(f64, [x.astype(np.float64)], g, [0])[0]
    ok, err, sc = fd.close(t.grad.data, want, dt)
    if not ok:
        raise Violation("grad_value", f"{'linear' if not dims else f'conv{dims}d'} with the SAME tensor as data and weight: gradient "
                                      f"differs from the finite-difference VJP of x -> op(x, x) by {err:.3e} (scale {sc:.3g}); {c}")


def _no_offset(c):
    # finite differences through data sitting 1e4 away from its spread are too noisy for a 1e-5 comparison;
    # the offset batch-norm data is used by the forward-value check (C06) and the history check (C13) only
    c["args"].pop("offset", None)
    return c


def subchecks():
    subs = []
    heavy = {"conv1d", "conv2d", "batch_norm", "max_pool2d", "avg_pool2d", "fold", "unfold"}
    for op in nnops.OPS + [nnops.DROPOUT]:
        q = 150 if op.name in heavy else 300
        strat = (lambda op=op: ops.full_case(op).map(_no_offset)) if op.name == "batch_norm" else (lambda op=op: ops.full_case(op))
        subs.append(SubCheck(op.name, gradcheck.make_check(op), strat,
                             quick=q, thorough=2000, shards_quick=2, shards_thorough=4))
    subs.append(SubCheck("conv_same_tensor", check_self_conv, self_conv_cases, quick=200, thorough=2500))
    subs.append(SubCheck("relu_kinks", check_relu_kink, relu_kink_cases, quick=300, thorough=4000))
    subs.append(SubCheck("pool_ties", check_pool_tie, pool_tie_cases, quick=300, thorough=4000))
    return subs
