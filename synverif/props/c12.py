"""C12 - module trees report each parameter once and propagate mode to all descendants."""
from collections import OrderedDict

import numpy as np
from hypothesis import strategies as st

from ..core import SubCheck, Violation
from ..env import sg

Tensor = sg.Tensor
nn = sg.nn

RULE = ("histories: command lists that create modules (custom Module, Linear, Sequential positional / OrderedDict) "
        "and Parameters, assign attributes (module / parameter / None / plain value) on any node incl. re-assignment "
        "of a registered name to another kind, register_module/register_parameter, share parameters or submodules "
        "between parents, and call train/eval/freeze/unfreeze/zero_grad on any node.  Oracle: explicit registry "
        "model (ordered, de-duplicated) checked after every command: parameters() order and uniqueness, "
        "submodules(), num_params split, .training of reachable/unreachable modules, requires_grad/.grad of "
        "reachable/unreachable parameters; Sequential output = composition in registration order.  non-trivial: "
        "tree depth >= 2 and (a shared parameter/submodule, or a re-assignment, or a mode call on a non-root "
        "node); distinct by hash of the history")
ASSUMPTIONS = ["cycles in the module graph are not generated",
               "what zero_grad does to frozen parameters is not specified and not asserted"]

NAMES = ["a", "b", "c", "w", "_p", "_m", "__x", "a1"]
IDX = st.sampled_from(list(range(31)))


@st.composite
def histories(draw):
    steps = []
    for _ in range(draw(st.sampled_from([3, 6, 10, 14, 18, 22, 30]))):
        k = draw(st.sampled_from(["new_node", "new_node", "new_linear", "new_seq", "new_param", "new_param", "set", "set",
                                  "set", "set", "set", "register", "mode", "mode", "mode", "grads"]))
        s = {"k": k}
        if k == "new_linear":
            s.update(i=draw(st.integers(1, 3)), o=draw(st.integers(1, 3)), bias=draw(st.booleans()))
        elif k == "new_seq":
            s.update(children=draw(st.one_of(st.lists(st.integers(0, 30), min_size=1, max_size=3),
                                             st.lists(st.integers(0, 30), min_size=11, max_size=13))), od=draw(st.booleans()))
        elif k == "new_param":
            s.update(shape=draw(st.sampled_from([[], [2], [2, 3], [1]])), rg=draw(st.booleans()))
        elif k == "set":
            s.update(parent=draw(IDX), name=draw(st.sampled_from(NAMES)),
                     kind=draw(st.sampled_from(["module", "module", "module", "param", "param", "none", "plain"])),
                     v=draw(IDX))
        elif k == "register":
            s.update(parent=draw(st.integers(0, 30)), name=draw(st.sampled_from(NAMES)),
                     kind=draw(st.sampled_from(["module", "param"])), v=draw(st.integers(0, 30)))
        elif k == "mode":
            s.update(node=draw(IDX),
                     call=draw(st.sampled_from(["train", "eval", "eval", "freeze", "unfreeze", "zero_grad", "zero_grad"])))
        steps.append(s)
    return {"steps": steps}


class Node(nn.Module):
    def forward(self, x):
        return x


class M:
    """model of one module"""
    def __init__(self, obj, idx):
        self.obj = obj
        self.idx = idx
        self.params = OrderedDict()   # name -> param index
        self.subs = OrderedDict()     # name -> module index
        self.training = True


def check_history(c, rec):
    mods = []       # list of M
    params = []     # list of dict(obj, rg, grad)  (grad: None | 'zeros' | 'ones')
    flags = set()

    def add_module(obj):
        m = M(obj, len(mods))
        mods.append(m)
        return m

    def add_param(p, rg):
        params.append({"obj": p, "rg": rg, "grad": None})
        return len(params) - 1

    def reach_mods(i, acc=None):
        acc = [] if acc is None else acc
        if i in acc:
            return acc
        acc.append(i)
        for j in mods[i].subs.values():
            reach_mods(j, acc)
        return acc

    def exp_params(i):
        """own parameters in registration order, then each submodule's, each distinct object once"""
        out = []

        def rec_(k):
            for pi in mods[k].params.values():
                out.append(pi)
            for j in mods[k].subs.values():
                rec_(j)
        rec_(i)
        seen = []
        for pi in out:
            if pi not in seen:
                seen.append(pi)
        return seen, out

    def depth(i, seen=()):
        return 1 + max([depth(j, seen + (i,)) for j in mods[i].subs.values() if j not in seen] or [0])

    def verify(what, hist):
        for m in mods:
            obj = m.obj
            # submodules
            got_subs = obj.submodules()
            want_subs = [mods[j].obj for j in m.subs.values()]
            if len(got_subs) != len(want_subs) or any(a is not b for a, b in zip(got_subs, want_subs)):
                raise Violation("submodules", f"after {what}: module #{m.idx}.submodules() lists {len(got_subs)} modules, "
                                              f"model {list(m.subs.items())}; history={hist}", region="stale" if len(got_subs) > len(want_subs) else None)
            want, raw = exp_params(m.idx)
            got = obj.parameters()
            ids = [id(p) for p in got]
            if len(set(ids)) != len(ids):
                raise Violation("parameter_reported_twice", f"after {what}: module #{m.idx}.parameters() reports the same "
                                                            f"parameter object more than once ({len(ids)} entries, "
                                                            f"{len(set(ids))} distinct); history={hist}")
            if len(got) != len(want) or any(a is not params[b]["obj"] for a, b in zip(got, want)):
                gi = [next((k for k, q in enumerate(params) if q["obj"] is a), "?") for a in got]
                raise Violation("parameters", f"after {what}: module #{m.idx}.parameters() = params {gi}, expected "
                                              f"{want} (own in registration order, then submodules'); history={hist}",
                                region="stale" if len(got) > len(want) else None)
            tot = sum(int(params[k]["obj"].size) for k in want)
            tr = sum(int(params[k]["obj"].size) for k in want if params[k]["rg"])
            if obj.num_params() != tot or obj.num_params(trainable=True) != tr or obj.num_params(non_trainable=True) != tot - tr:
                raise Violation("num_params", f"after {what}: module #{m.idx}.num_params() = {obj.num_params()}/"
                                              f"{obj.num_params(trainable=True)}/{obj.num_params(non_trainable=True)}, "
                                              f"expected {tot}/{tr}/{tot - tr}; history={hist}")
            if obj.training != m.training:
                raise Violation("training_flag", f"after {what}: module #{m.idx}.training={obj.training}, model {m.training}; history={hist}")
            # attribute access returns what was assigned last
            for name, j in m.subs.items():
                if getattr(obj, name) is not mods[j].obj:
                    raise Violation("attribute", f"module #{m.idx}.{name} is not the registered submodule")
            for name, k in m.params.items():
                if getattr(obj, name) is not params[k]["obj"]:
                    raise Violation("attribute", f"module #{m.idx}.{name} is not the registered parameter")
        for k, q in enumerate(params):
            p = q["obj"]
            if p.requires_grad != q["rg"]:
                raise Violation("requires_grad_flag", f"after {what}: parameter {k}.requires_grad={p.requires_grad}, model {q['rg']}; history={hist}")
            g = p.grad
            if q["grad"] is None:
                if g is not None:
                    raise Violation("grad_unexpected", f"after {what}: parameter {k} acquired a gradient; history={hist}")
            elif q["grad"] == "any":
                pass
            else:
                want = 0.0 if q["grad"] == "zeros" else 1.0
                if g is None or g.shape != p.shape or not np.all(g.data == want):
                    raise Violation("grad_value", f"after {what}: parameter {k}.grad is "
                                                  f"{None if g is None else np.asarray(g.data).ravel().tolist()}, expected all "
                                                  f"{want} of shape {p.shape}; history={hist}")

    hist = []
    for s in c["steps"]:
        k = s["k"]
        label = None
        if k == "new_node":
            add_module(Node())
            label = "new Module"
        elif k == "new_linear":
            lin = nn.Linear(s["i"], s["o"], bias=s["bias"])
            m = add_module(lin)
            m.params["weight"] = add_param(lin.weight, True)
            if s["bias"]:
                m.params["bias"] = add_param(lin.bias, True)
            label = f"new Linear({s['i']},{s['o']},bias={s['bias']})"
        elif k == "new_seq":
            if not mods:
                continue
            ch = [v % len(mods) for v in s["children"]]
            if s["od"]:
                names = [f"m{i}" for i in range(len(ch))]
                obj = nn.Sequential(OrderedDict((n, mods[j].obj) for n, j in zip(names, ch)))
            else:
                names = [str(i) for i in range(len(ch))]
                obj = nn.Sequential(*[mods[j].obj for j in ch])
            m = add_module(obj)
            for n, j in zip(names, ch):
                m.subs[n] = j
            if len(set(ch)) < len(ch):
                flags.add("shared")
            label = f"new Sequential({'OrderedDict' if s['od'] else 'positional'} of modules {ch})"
        elif k == "new_param":
            p = nn.Parameter(Tensor(np.full(s["shape"], 0.5, dtype=np.float32), requires_grad=s["rg"]))
            add_param(p, s["rg"])
            continue
        elif k in ("set", "register"):
            if not mods:
                continue
            par = mods[s["parent"] % len(mods)]
            name = s["name"]
            kind = s["kind"]
            existed = name in par.params or name in par.subs
            if kind == "module":
                j = s["v"] % len(mods)
                if par.idx in reach_mods(j):          # would create a cycle
                    continue
                if any(j in reach_mods(r) for r in range(len(mods)) if r != par.idx and mods[r].subs and j in mods[r].subs.values()):
                    flags.add("shared")
                if k == "set":
                    setattr(par.obj, name, mods[j].obj)
                else:
                    par.obj.register_module(name, mods[j].obj)
                par.params.pop(name, None)
                par.subs[name] = j
                label = f"module#{par.idx}.{name} = module#{j}" + (" (register_module)" if k == "register" else "")
            elif kind == "param":
                if not params:
                    continue
                pi = s["v"] % len(params)
                if any(pi in mm.params.values() for mm in mods):
                    flags.add("shared")
                if k == "set":
                    setattr(par.obj, name, params[pi]["obj"])
                else:
                    par.obj.register_parameter(name, params[pi]["obj"])
                par.subs.pop(name, None)
                par.params[name] = pi
                label = f"module#{par.idx}.{name} = param{pi}" + (" (register_parameter)" if k == "register" else "")
            else:
                val = None if kind == "none" else 3
                setattr(par.obj, name, val)
                par.params.pop(name, None)
                par.subs.pop(name, None)
                label = f"module#{par.idx}.{name} = {val}"
                if getattr(par.obj, name) is not val and getattr(par.obj, name) != val:
                    raise Violation("attribute", f"{label} did not take effect")
            if existed:
                flags.add("reassignment")
        elif k == "mode":
            if not mods:
                continue
            i = s["node"] % len(mods)
            call = s["call"]
            label = f"module#{i}.{call}()"
            is_root = not any(i in mm.subs.values() for mm in mods)
            if not is_root:
                flags.add("mode_call_on_non_root")
            rm = reach_mods(i)
            rp, _ = exp_params(i)
            try:
                ret = getattr(mods[i].obj, call)()
            except Exception as e:  # noqa: BLE001
                raise Violation("mode_call_raised", f"{label} raised {type(e).__name__}: {e}; history={hist + [label]}")
            if call in ("train", "eval"):
                for j in rm:
                    mods[j].training = (call == "train")
                if ret is not mods[i].obj:
                    raise Violation("mode_return", f"{label} does not return the module")
            elif call in ("freeze", "unfreeze"):
                for kk in rp:
                    params[kk]["rg"] = (call == "unfreeze")
            else:
                for kk in rp:
                    if params[kk]["rg"]:
                        params[kk]["grad"] = "zeros"
                    elif params[kk]["grad"] is not None or params[kk]["obj"].grad is not None:
                        params[kk]["grad"] = "any"      # not specified for frozen parameters
        elif k == "grads":
            for q in params:
                if q["rg"] and q["grad"] is None:
                    (q["obj"] * 1.0).sum().backward()
                    q["grad"] = "ones"
            label = "give gradients"
        if label is None:
            continue
        hist.append(label)
        verify(label, hist)
    d = max([depth(i) for i in range(len(mods))] or [0])
    rec.nontrivial(d >= 2 and bool(flags))
    rec.tag(*sorted(flags), f"depth{min(d, 4)}")


# ---- Sequential applies its submodules in registration order ------------------------------------
class Affine(nn.Module):
    def __init__(self, a, b):
        super().__init__()
        self.a, self.b = a, b

    def forward(self, x):
        return x * self.a + self.b


@st.composite
def seq_cases(draw):
    n = draw(st.sampled_from([1, 2, 3, 4, 5, 11, 12, 23]))
    return {"ab": [[draw(st.sampled_from([2.0, -1.0, 0.5, 3.0] if n <= 5 else [1.0, -1.0, 0.5, -0.5])), draw(st.sampled_from([1.0, -2.0, 0.25, 0.0]))] for _ in range(n)],
            "od": draw(st.booleans()), "x": [draw(st.integers(-8, 8)) / 4.0 for _ in range(3)],
            "names": draw(st.permutations(["z", "m", "a", "k", "b"])) + [f"n{j}" for j in range(30)]}


def check_seq(c, rec):
    layers = [Affine(a, b) for a, b in c["ab"]]
    if c["od"]:
        seq = nn.Sequential(OrderedDict((c["names"][i], l) for i, l in enumerate(layers)))
    else:
        seq = nn.Sequential(*layers)
    rec.nontrivial(len(layers) >= 2)
    x = np.array(c["x"], dtype=np.float64)
    out = seq(Tensor(x.copy()))
    want = x.copy()
    for a, b in c["ab"]:
        want = want * a + b
    if not np.allclose(out.data, want, rtol=1e-12, atol=1e-12):
        raise Violation("sequential_order", f"Sequential({'OrderedDict' if c['od'] else 'positional'}) of affine maps {c['ab']} "
                                            f"gives {np.asarray(out.data).tolist()}, composition in registration order gives {want.tolist()}")
    subs = seq.submodules()
    if len(subs) != len(layers) or any(a is not b for a, b in zip(subs, layers)):
        raise Violation("sequential_order", "Sequential.submodules() is not the registration order")


@st.composite
def _one_command(draw):
    return draw(histories())["steps"][0]


def subchecks():
    from ..core import command_machine
    return [SubCheck("histories_rule_based", check_history, None, steps=24, quick=60, thorough=500, shards_quick=2, shards_thorough=4,
                     machine=command_machine(st.just({}), _one_command(), lambda init, cmds: {"steps": cmds})),
            SubCheck("histories", check_history, histories, quick=900, thorough=4000, shards_quick=8, shards_thorough=16),
            SubCheck("sequential", check_seq, seq_cases, quick=300, thorough=3000)]
