"""C07 - requires_grad propagation and grad-mode contexts behave like a stack.

Programs are trees (nested `with` blocks, try/raise, statements), run by a recursive interpreter that uses
real `with` statements, next to an explicit stack model of the two modes and of every tensor's flags."""
import contextlib
import io

import numpy as np
from hypothesis import strategies as st

from ..core import SubCheck, Violation
from .. import env
from ..env import sg

Tensor = sg.Tensor

RULE = ("programs: trees of statements - with no_grad / with retain_grads (fresh object, object constructed earlier "
        "and entered later, object entered a second time), try/raise caught at an enclosing level, create leaf "
        "(requested flag, float32/float64/int32), apply op to existing tensors, set requires_grad, retain_grad(), "
        "backward().  Oracle: explicit stack model of (grad enabled, retain all) and of every tensor's "
        "requires_grad/is_leaf/grad_fn; a probe after every context exit (normal or exceptional) must observe the "
        "mode in force at entry.  non-trivial: nesting depth >= 2 mixing both context kinds, or an exit by "
        "exception, or a context object entered later than constructed / entered twice; distinct by program hash"
        " Round 4: contexts of different kinds that overlap without nesting (explicit __enter__/__exit__, generators suspended inside a with-block; exits in any order across kinds, by exception too) with mode probes after every event."
        " Round 5: constructors (Tensor, tensor, Parameter, ones, zeros, arange, eye, *_like) x data kinds x dtype= casts with requires_grad=True, inside and outside no_grad."
        " Round 7: rows obtained by iterating / unpacking / zip / builtin sum over a tensor carry the flags of x[i]; freeze()/zero_grad() never raise on trees holding non-float parameters.")
ASSUMPTIONS = ["re-entering the SAME context object while it is already active is not generated (not claimed by the "
               "statement; PyTorch's own no_grad does not support it either)",
               "retention of intermediates is asserted only when creation and backward happen under the same "
               "retain mode; the two mixed cases are recorded, not asserted"]


IDX = st.sampled_from(list(range(41)))


class Boom(Exception):
    pass


OPS = ["add", "mul", "tanh", "sum", "relu", "exp", "getitem", "addc", "addmm", "addmm", "matmul"]


@st.composite
def block(draw, depth, max_len=6):
    out = []
    for _ in range(draw(st.integers(1, max_len))):
        kinds = ["leaf", "leaf", "op", "op", "op", "set_rg", "retain_grad", "backward", "make_cm"]
        if depth > 0:
            kinds += ["with", "with", "with", "with_slot", "try"]
        kinds += ["raise"] if draw(st.integers(0, 5)) == 0 else []
        k = draw(st.sampled_from(kinds))
        if k == "leaf":
            out.append({"k": "leaf", "rg": draw(st.booleans()),
                        "dtype": draw(st.sampled_from(["float32", "float64", "float32", "int32", "float16", "complex64", "bool",
                                                       "uint8", "int64", "complex128"]))})
        elif k == "op":
            out.append({"k": "op", "op": draw(st.sampled_from(OPS)), "a": draw(IDX), "b": draw(IDX),
                        "c": draw(IDX)})
        elif k == "set_rg":
            out.append({"k": "set_rg", "t": draw(IDX), "v": draw(st.booleans())})
        elif k == "retain_grad":
            out.append({"k": "retain_grad", "t": draw(IDX)})
        elif k == "backward":
            out.append({"k": "backward", "t": draw(IDX), "newest": draw(st.booleans())})
        elif k == "make_cm":
            out.append({"k": "make_cm", "ctx": draw(st.sampled_from(["no_grad", "retain_grads"])), "slot": draw(st.integers(0, 2))})
        elif k == "with":
            out.append({"k": "with", "ctx": draw(st.sampled_from(["no_grad", "retain_grads"])),
                        "body": draw(block(depth - 1, 4))})
        elif k == "with_slot":
            out.append({"k": "with_slot", "slot": draw(st.integers(0, 2)), "body": draw(block(depth - 1, 4))})
        elif k == "try":
            out.append({"k": "try", "body": draw(block(depth - 1, 4))})
        elif k == "raise":
            out.append({"k": "raise"})
    return out


@st.composite
def programs(draw):
    return {"prog": draw(block(draw(st.integers(1, 4)), 7))}


class Interp:
    def __init__(self, rec):
        self.rec = rec
        self.grad_on = True
        self.retain_all = False
        self.T = []          # list of dict: t, rg, dtype, parents, made_retain, retain_flag, has_fn
        self.slots = {}      # slot -> (object, kind, active)
        self.depth_kinds = []
        self.max_mixed_depth = 0
        self.flags = set()
        self.trace = []

    # ---- observation helpers -------------------------------------------------------------------
    @staticmethod
    def grad_of(t):
        with contextlib.redirect_stdout(io.StringIO()):
            return t.grad

    def probe_grad_mode_only(self, where):
        p = Tensor(1.0, requires_grad=True)
        if p.requires_grad != self.grad_on:
            raise Violation("mode_not_restored",
                            f"{where}: gradient mode is enabled={p.requires_grad}, the mode in force should be enabled="
                            f"{self.grad_on}; trace={self.trace}", region="backward")

    def probe(self, where):
        p = Tensor(1.0, requires_grad=True)
        if p.requires_grad != self.grad_on:
            raise Violation("mode_not_restored",
                            f"{where}: a tensor created with requires_grad=True has requires_grad={p.requires_grad}; the "
                            f"gradient mode in force should be enabled={self.grad_on}; trace={self.trace}", region="no_grad")
        # retain mode probe: 3-node mini graph, built and differentiated here
        saved = None
        try:
            # build with tracking regardless of the current grad mode: only observable if grad mode is on
            if self.grad_on:
                a = Tensor(np.array([1.0, 2.0]), requires_grad=True)
                b = a * 2.0
                c = (b * 3.0).sum()
                c.backward()
                kept = self.grad_of(b) is not None
                if kept != self.retain_all:
                    raise Violation("mode_not_restored",
                                    f"{where}: an intermediate gradient was {'kept' if kept else 'released'} but "
                                    f"retain_grads mode should be {self.retain_all}; trace={self.trace}", region="retain_grads")
        finally:
            del saved

    # ---- interpreter ----------------------------------------------------------------------------
    def run(self, prog):
        try:
            self.block(prog)
        except Boom:
            self.flags.add("uncaught_raise")
        self.final_checks()

    def block(self, stmts):
        for s in stmts:
            getattr(self, "do_" + s["k"])(s)

    def _enter(self, cm, kind, body, label):
        mode_at_entry = (self.grad_on, self.retain_all)
        self.depth_kinds.append(kind)
        if len(self.depth_kinds) >= 2 and len(set(self.depth_kinds)) == 2:
            self.flags.add("mixed_nesting")
        self.trace.append(f"enter {label}")
        exc = None
        try:
            with cm:
                if kind == "no_grad":
                    self.grad_on = False
                else:
                    self.retain_all = True
                self.probe(f"inside {label}")
                self.block(body)
        except Boom as e:
            exc = e
            self.flags.add("exit_by_exception")
        finally:
            self.depth_kinds.pop()
            self.grad_on, self.retain_all = mode_at_entry
            self.trace.append(f"exit {label}" + (" by exception" if exc else ""))
        self.probe(f"after {'exceptional ' if exc else ''}exit of {label}")
        if exc is not None:
            raise exc

    def do_with(self, s):
        cm = sg.no_grad() if s["ctx"] == "no_grad" else sg.retain_grads()
        self._enter(cm, s["ctx"], s["body"], s["ctx"] + "()")

    def do_make_cm(self, s):
        cur = self.slots.get(s["slot"])
        if cur is not None and cur["active"]:
            return
        cm = sg.no_grad() if s["ctx"] == "no_grad" else sg.retain_grads()
        self.slots[s["slot"]] = {"cm": cm, "kind": s["ctx"], "active": False, "uses": 0,
                                 "made_mode": (self.grad_on, self.retain_all)}
        self.trace.append(f"construct {s['ctx']} object #{s['slot']}")

    def do_with_slot(self, s):
        cur = self.slots.get(s["slot"])
        if cur is None or cur["active"]:
            return self.block(s["body"])        # nothing stored (or already active): just run the body
        if cur["made_mode"] != (self.grad_on, self.retain_all):
            self.flags.add("entered_later_than_constructed")
        if cur["uses"] >= 1:
            self.flags.add("entered_twice")
        cur["uses"] += 1
        cur["active"] = True
        try:
            self._enter(cur["cm"], cur["kind"], s["body"], f"stored {cur['kind']} object #{s['slot']}")
        finally:
            cur["active"] = False

    def do_try(self, s):
        try:
            self.block(s["body"])
        except Boom:
            self.trace.append("caught")

    def do_raise(self, s):
        self.trace.append("raise")
        raise Boom()

    def do_leaf(self, s):
        dt = np.dtype(s["dtype"])
        data = np.array([[1.5, -2.0], [0.5, 1.0]]).astype(dt)
        self.rec.tag("dtype_" + dt.name)
        is_float = dt.kind == "f"          # float16/32/64 only: complex, bool and integers can never require grad
        want_rg = s["rg"] and self.grad_on
        self.trace.append(f"leaf rg={s['rg']} {s['dtype']}")
        try:
            t = Tensor(data, requires_grad=s["rg"])
        except RuntimeError:
            if want_rg and not is_float:
                return          # correctly refused
            raise Violation("leaf_rejected", f"creating a {s['dtype']} leaf with requires_grad={s['rg']} raised while "
                                             f"gradient mode enabled={self.grad_on}; trace={self.trace}")
        if want_rg and not is_float:
            raise Violation("int_requires_grad", f"an integer tensor was created with requires_grad=True; trace={self.trace}")
        if t.requires_grad != want_rg:
            raise Violation("leaf_flag", f"leaf created with requires_grad={s['rg']} under grad mode enabled={self.grad_on} "
                                         f"has requires_grad={t.requires_grad}; trace={self.trace}")
        self.T.append({"t": t, "rg": want_rg, "float": is_float, "parents": [], "made_retain": self.retain_all,
                       "retain_flag": False, "fn": False, "ever_rg": want_rg})

    def do_op(self, s):
        floats = [i for i, e in enumerate(self.T) if e["float"]]
        if not floats:
            return
        # raw numbers >= 20 pick one of the three most recent tensors (builds deeper graphs)
        pick = lambda raw, n: (n - 1 - raw % min(3, n)) if raw >= 20 else raw % n  # noqa: E731
        ia = floats[pick(s["a"], len(floats))]
        ib = pick(s["b"], len(self.T))
        a, b = self.T[ia], self.T[ib]
        op = s["op"]
        ta, tb = a["t"], b["t"]
        parents = [ia]
        if op in ("add", "mul"):
            if tb.shape != ta.shape and tb.ndim != 0 and ta.ndim != 0:
                tb, b, ib = ta, a, ia
            try:
                r = ta + tb if op == "add" else ta * tb
            except RuntimeError:
                # float (requiring grad) combined with a complex operand gives a complex result, which the library
                # refuses to track: a rejected forward, nothing to assert
                if not b["float"]:
                    return
                raise
            parents = [ia, ib]
        elif op == "tanh":
            r = sg.tanh(ta)
        elif op == "sum":
            r = ta.sum()
        elif op == "relu":
            r = sg.relu(ta)
        elif op == "exp":
            r = ta.exp()
        elif op == "getitem":
            if ta.ndim == 0:
                return
            r = ta[:, ::-1]
        elif op in ("addmm", "matmul"):
            mats = [i for i in floats if self.T[i]["t"].ndim == 2]
            if len(mats) < 1:
                return
            i2 = mats[pick(s["b"], len(mats))]
            i3 = mats[pick(s.get("c", 0), len(mats))]
            if op == "addmm":
                r = sg.addmm(ta, self.T[i2]["t"], self.T[i3]["t"])
                parents = [ia, i2, i3]
            else:
                r = self.T[i2]["t"] @ self.T[i3]["t"]
                parents = [i2, i3]
        else:
            r = ta + 1.0
        self.trace.append(f"op {op} on {parents}")
        want = self.grad_on and any(self.T[p]["rg"] for p in parents)
        if r.requires_grad != want:
            raise Violation("result_flag", f"{op}: result requires_grad={r.requires_grad}, expected {want} (grad mode "
                                           f"enabled={self.grad_on}, operands require grad: {[self.T[p]['rg'] for p in parents]}); "
                                           f"trace={self.trace}")
        if (r.grad_fn is not None) != want:
            raise Violation("grad_fn_flag", f"{op}: result grad_fn is {'set' if r.grad_fn is not None else 'None'} but "
                                            f"requires_grad should be {want}; trace={self.trace}")
        if r.is_leaf != (not want):
            raise Violation("is_leaf_flag", f"{op}: result is_leaf={r.is_leaf}, expected {not want}")
        self.T.append({"t": r, "rg": want, "float": r.dtype.kind == "f", "parents": parents if want else [],
                       "made_retain": self.retain_all, "retain_flag": False, "fn": want, "ever_rg": want})

    def do_set_rg(self, s):
        if not self.T:
            return
        e = self.T[s["t"] % len(self.T)]
        t = e["t"]
        is_leaf = not (e["rg"] and e["fn"])
        should_raise = (not is_leaf) or (s["v"] and not e["float"])
        self.trace.append(f"set requires_grad={s['v']}")
        try:
            t.requires_grad = s["v"]
        except RuntimeError:
            if should_raise:
                return
            raise Violation("setter_rejected", f"setting requires_grad={s['v']} on a {'float' if e['float'] else 'int'} leaf raised; trace={self.trace}")
        if should_raise:
            raise Violation("setter_accepted", f"setting requires_grad={s['v']} on a "
                                               f"{'non-leaf' if not is_leaf else 'integer'} tensor was accepted; trace={self.trace}")
        e["rg"] = bool(s["v"])
        e["ever_rg"] = e["ever_rg"] or e["rg"]
        if t.requires_grad != e["rg"]:
            raise Violation("setter_flag", "requires_grad setter did not take effect")

    def do_retain_grad(self, s):
        if not self.T:
            return
        e = self.T[s["t"] % len(self.T)]
        try:
            e["t"].retain_grad()
        except RuntimeError:
            if not e["rg"]:
                return
            raise Violation("retain_rejected", f"retain_grad() raised on a tensor that requires grad; trace={self.trace}")
        if not e["rg"]:
            raise Violation("retain_accepted", f"retain_grad() accepted on a tensor that does not require grad; trace={self.trace}")
        e["retain_flag"] = True

    def _graph(self, i, seen):
        if i in seen:
            return
        seen.add(i)
        e = self.T[i]
        if e["rg"] and e["fn"]:
            for p in e["parents"]:
                if self.T[p]["rg"]:
                    self._graph(p, seen)

    def do_backward(self, s):
        if not self.T:
            return
        i = (len(self.T) - 1) if s["newest"] else s["t"] % len(self.T)
        e = self.T[i]
        t = e["t"]
        self.trace.append(f"backward on #{i}")
        g = Tensor(np.ones(t.shape, dtype=t.dtype if e["float"] else np.float32))
        try:
            t.backward(g)
        except RuntimeError:
            if not e["rg"]:
                return
            raise Violation("backward_rejected", f"backward() raised on a tensor that requires grad; trace={self.trace}")
        if not e["rg"]:
            raise Violation("backward_accepted", f"backward() accepted on a tensor that does not require grad; trace={self.trace}")
        self.probe_grad_mode_only(f"right after backward on #{i}")
        seen = set()
        self._graph(i, seen)
        for j in seen:
            f = self.T[j]
            gr = self.grad_of(f["t"])
            interior = f["rg"] and f["fn"] and j != i
            if not interior:
                if f["rg"] and gr is None:
                    raise Violation("grad_released", f"{'root' if j == i else 'leaf'} #{j} has no gradient after backward; trace={self.trace}")
                continue
            if f["retain_flag"] or (f["made_retain"] and self.retain_all):
                if gr is None:
                    raise Violation("grad_released", f"intermediate #{j} marked with retain_grad / computed under "
                                                     f"retain_grads lost its gradient; trace={self.trace}")
            elif not f["made_retain"] and not self.retain_all:
                if gr is not None:
                    raise Violation("grad_kept", f"intermediate #{j} kept its gradient after backward although nothing "
                                                 f"asked to retain it; trace={self.trace}")
            else:
                self.flags.add("mixed_retain_case_not_asserted")

    def final_checks(self):
        for j, f in enumerate(self.T):
            if not f["rg"]:
                t = f["t"]
                if t.requires_grad:
                    raise Violation("flag_drift", f"tensor #{j} now requires grad although nothing set it; trace={self.trace}")
                if t.grad_fn is not None:
                    raise Violation("grad_fn_flag", f"tensor #{j} does not require grad but carries a grad_fn")
                if self.grad_of(t) is not None and not f.get("ever_rg", False):
                    raise Violation("grad_on_nonrequiring", f"tensor #{j} never required grad but acquired a .grad; trace={self.trace}")
        if self.grad_on is not True or self.retain_all is not False:
            raise AssertionError("model stack not unwound")
        self.probe("at the end of the program")


def check_program(c, rec):
    env.reset_global_modes()
    it = Interp(rec)
    it.run(c["prog"])
    nt = bool({"mixed_nesting", "exit_by_exception", "entered_later_than_constructed", "entered_twice"} & it.flags)
    rec.nontrivial(nt)
    rec.tag(*sorted(it.flags))


# ---- the flag rule for EVERY op of both catalogues, in both modes ------------------------------------
def make_flag_check(op):
    from .. import ops as _ops

    def check(case, rec):
        env.reset_global_modes()
        args = case["args"]
        rg = case["rg"]
        no_grad = case["no_grad"]
        rec.nontrivial(no_grad and any(rg) or (any(rg) and not all(rg)))
        rec.tag("no_grad" if no_grad else "grad_on", "some_rg" if any(rg) else "none_rg")
        ts = _ops.leaves(case, rg=rg)
        try:
            if no_grad:
                with sg.no_grad():
                    out = op.apply(ts, args)
            else:
                out = op.apply(ts, args)
        except Exception:  # noqa: BLE001
            rec.skip = "forward_rejected"
            return
        outs = list(out) if isinstance(out, (tuple, list)) else [out]
        want = (not no_grad) and any(rg)
        ctx = f"op={op.name} args={args} operands require grad={rg} grad mode enabled={not no_grad}"
        if op.name == "dropout" and not args["training"] and any(outs[0] is t for t in ts):
            rec.skip = "documented_identity_returns_operand"     # eval-mode Dropout is documented as the identity
            return
        for o in outs:
            if o.requires_grad != want:
                raise Violation("result_flag", f"result requires_grad={o.requires_grad}, expected {want}; {ctx}")
            if (o.grad_fn is not None) != want:
                raise Violation("grad_fn_flag", f"result grad_fn is {'set' if o.grad_fn is not None else 'None'}, "
                                                f"expected {'set' if want else 'None'}; {ctx}")
            if any(o is t for t in ts):
                if not want and any(t.requires_grad for t in ts if t is o):
                    raise Violation("result_flag", f"the op returned its own operand (which requires grad) as an untracked result; {ctx}")
            if not want:
                try:
                    o.backward(Tensor(np.ones(o.shape, dtype=o.dtype if o.dtype.kind == "f" else np.float32)))
                except Exception:  # noqa: BLE001
                    pass
                else:
                    raise Violation("backward_accepted", f"backward() accepted on a result that must not require grad; {ctx}")
                with contextlib.redirect_stdout(io.StringIO()):
                    if o.grad is not None:
                        raise Violation("grad_on_nonrequiring", f"an untracked result acquired a .grad; {ctx}")
    return check


# ---- release rule for the result node of EVERY op --------------------------------------------------
def make_release_check(op):
    from .. import ops as _ops

    def check(case, rec):
        env.reset_global_modes()
        args = case["args"]
        mode = case["mode"]
        ts = _ops.leaves(case, rg=case["rg"])
        rec.nontrivial(mode != "plain" or len(ts) >= 3)
        rec.tag(mode)
        ctx = f"op={op.name} args={args} mode={mode}"

        def run():
            out = op.apply(ts, args)
            o = _ops.pick(out, case)
            if not o.requires_grad:
                return None, None
            if mode == "retain_grad":
                o.retain_grad()
            root = (o * 2.0).sum() if o.ndim else o * 2.0
            root.backward()
            return o, root
        try:
            if mode == "retain_grads":
                with sg.retain_grads():
                    o, root = run()
            else:
                o, root = run()
        except Exception:  # noqa: BLE001
            rec.skip = "rejected"
            return
        if o is None:
            rec.skip = "no_grad_result"
            return
        with contextlib.redirect_stdout(io.StringIO()):
            kept = o.grad is not None
            root_kept = root.grad is not None
            leaves_kept = [t.grad is not None for t, r in zip(ts, case["rg"]) if r]
        if not root_kept:
            raise Violation("grad_released", f"the root lost its gradient after backward; {ctx}")
        if mode == "plain" and kept:
            raise Violation("grad_kept", f"the op's result (an intermediate, not retained) kept its gradient after backward; {ctx}")
        if mode != "plain" and not kept:
            raise Violation("grad_released", f"the op's result was marked/retained ({mode}) but lost its gradient; {ctx}")
    return check


@st.composite
def release_case(draw, op):
    from .. import ops as _ops
    c = draw(_ops.full_case(op))
    c["mode"] = draw(st.sampled_from(["plain", "plain", "retain_grad", "retain_grads"]))
    return c


# ---- no API path may make a non-floating tensor require grad: Module.freeze/unfreeze over mixed-dtype parameters ----
@st.composite
def freeze_cases(draw):
    return {"dtypes": draw(st.lists(st.sampled_from(["float32", "float64", "float16", "int64", "int32", "bool", "complex64", "uint8"]),
                                    min_size=1, max_size=4)),
            "calls": draw(st.lists(st.sampled_from(["freeze", "unfreeze", "unfreeze", "zero_grad"]), min_size=1, max_size=4)),
            "nested": draw(st.booleans())}


def check_freeze(c, rec):
    env.reset_global_modes()
    nn = sg.nn
    ps = []
    for d in c["dtypes"]:
        dt = np.dtype(d)
        ps.append(nn.Parameter(Tensor(np.ones((2,), dtype=dt), requires_grad=False)))

    class Holder(nn.Module):
        def __init__(self, params):
            super().__init__()
            for i, p in enumerate(params):
                setattr(self, f"p{i}", p)

    inner = Holder(ps)
    m = inner
    if c["nested"]:
        m = nn.Sequential(inner)
    rec.nontrivial(any(np.dtype(d).kind != "f" for d in c["dtypes"]) and "unfreeze" in c["calls"])
    for call in c["calls"]:
        try:
            getattr(m, call)()
        except RuntimeError as e:
            # refusing to UNfreeze is fine (the flag setter refuses non-floating tensors); freezing or zeroing gradients
            # never asks a non-float tensor to require grad, so there is nothing to refuse
            if call != "unfreeze":
                raise Violation("mode_call_raised", f"Module.{call}() raised {type(e).__name__}: {e} on a tree holding parameters of "
                                                    f"dtypes {c['dtypes']}; calls={c['calls']}")
        if call == "freeze":
            for p, d in zip(ps, c["dtypes"]):
                if p.requires_grad:
                    raise Violation("freeze_incomplete", f"after Module.freeze() a {d} parameter still requires grad; dtypes={c['dtypes']}")
        for p, d in zip(ps, c["dtypes"]):
            if p.requires_grad and np.dtype(d).kind != "f":
                raise Violation("nonfloat_requires_grad", f"after Module.{call}() a {d} parameter requires grad; dtypes={c['dtypes']} calls={c['calls']}")


@st.composite
def loss_flag_cases(draw):
    return {"loss": draw(st.sampled_from(["mse_loss", "binary_cross_entropy", "binary_cross_entropy_with_logits", "MSELoss", "BCELoss",
                                          "BCEWithLogitsLoss"])),
            "rg": [draw(st.booleans()), draw(st.booleans())], "no_grad": draw(st.booleans()),
            "reduction": draw(st.sampled_from(["mean", "sum", "none"]))}


def check_loss_flags(c, rec):
    env.reset_global_modes()
    rec.nontrivial(c["rg"] == [False, True])
    pred = Tensor(np.array([0.25, 0.5, 0.75]), requires_grad=c["rg"][0])
    tgt = Tensor(np.array([0.0, 1.0, 0.5]), requires_grad=c["rg"][1])

    def run():
        if c["loss"][0].isupper():
            return getattr(sg.nn, c["loss"])(reduction=c["reduction"])(pred, tgt)
        return getattr(sg.nn.functional, c["loss"])(pred, tgt)
    if c["no_grad"]:
        with sg.no_grad():
            out = run()
    else:
        out = run()
    want = (not c["no_grad"]) and any(c["rg"])
    ctx = f"{c}"
    if out.requires_grad != want or (out.grad_fn is not None) != want:
        raise Violation("result_flag", f"{c['loss']}: result requires_grad={out.requires_grad} grad_fn={'set' if out.grad_fn else 'None'}, "
                                       f"expected {want} (operands require grad: prediction {c['rg'][0]}, target {c['rg'][1]}); {ctx}")
    try:
        out.backward(Tensor(np.ones(out.shape)))
        accepted = True
    except RuntimeError:
        accepted = False
    if accepted != want:
        raise Violation("backward_accepted" if accepted else "backward_rejected", f"{c['loss']}: backward() "
                        f"{'accepted' if accepted else 'refused'} although the result should{'' if want else ' not'} require grad; {ctx}")


@st.composite
def flag_case(draw, op):
    from .. import ops as _ops
    c = draw(_ops.full_case(op, need_grad=False))
    n = len(c["rg"])
    c["rg"] = draw(st.sampled_from([[True] * n, [False] * n, [True] + [False] * (n - 1), [False] * (n - 1) + [True]]))
    c["no_grad"] = draw(st.sampled_from([True, False]))
    return c


# ---- iteration / unpacking of a tensor is indexing: the rows carry the flags of x[i] ------------------------------
@st.composite
def iter_flag_cases(draw):
    return {"shape": draw(st.sampled_from([[2], [3, 2], [2, 1, 3], [1, 4]])), "rg": draw(st.booleans()), "no_grad": draw(st.booleans()),
            "how": draw(st.sampled_from(["for", "unpack", "list", "zip", "builtin_sum"])), "dtype": draw(st.sampled_from(["float32", "float64"]))}


def check_iter_flags(c, rec):
    dt = np.dtype(c["dtype"])
    x = Tensor(np.arange(int(np.prod(c["shape"])), dtype=dt).reshape(c["shape"]) / 4.0, requires_grad=c["rg"])
    rec.tag(c["how"])
    rec.nontrivial(c["rg"])
    ctxm = sg.no_grad() if c["no_grad"] else contextlib.nullcontext()
    with ctxm:
        if c["how"] == "for":
            rows = [r for r in x]
        elif c["how"] == "unpack":
            rows = [*x]
        elif c["how"] == "list":
            rows = list(x)
        elif c["how"] == "zip":
            rows = [a for a, _ in zip(x, range(len(x.data)))]
        else:
            rows = [sum(x)] if x.shape[0] else []
    want = c["rg"] and not c["no_grad"]
    for i, r in enumerate(rows):
        if not isinstance(r, Tensor):
            raise Violation("result_flag", f"iterating a Tensor ({c['how']}) yielded {type(r).__name__}; {c}")
        if r.requires_grad != want or (r.grad_fn is not None) != want:
            raise Violation("result_flag", f"row {i} of `{c['how']}` over a tensor with requires_grad={c['rg']} (grad mode "
                                           f"{'off' if c['no_grad'] else 'on'}): requires_grad={r.requires_grad}, grad_fn "
                                           f"{'set' if r.grad_fn is not None else 'None'}; expected {want}; {c}", region="iteration")
    if want and rows:
        total = rows[0].sum()
        for r in rows[1:]:
            total = total + r.sum()
        total.backward()
        g = x.grad
        if g is None or not np.all(np.asarray(g.data) == 1.0):
            raise Violation("grad_missing", f"backward through the rows of `{c['how']}` did not reach the iterated tensor; {c}", region="iteration")


# ---- constructors with a dtype= that changes the kind of the data, and requires_grad=True -----------------------
@st.composite
def ctor_flag_cases(draw):
    return {"src": draw(st.sampled_from(["float_array", "float_list", "int_array", "int_list", "bool_array", "np_float_scalar", "np_int_scalar",
                                         "py_float", "py_int"])),
            "dtype": draw(st.sampled_from([None, "float32", "float64", "int64", "int32", "bool", "uint8", "float16"])),
            "via": draw(st.sampled_from(["Tensor", "tensor", "Parameter", "ones", "zeros", "arange", "eye", "ones_like", "zeros_like"])),
            "ambient": draw(st.sampled_from(["on", "on", "no_grad"]))}


def check_ctor_flag(c, rec):
    src = {"float_array": np.array([1.5, 2.5]), "float_list": [1.5, 2.5], "int_array": np.array([1, 2]), "int_list": [1, 2],
           "bool_array": np.array([True, False]), "np_float_scalar": np.float64(2.5), "np_int_scalar": np.int64(3),
           "py_float": 2.5, "py_int": 3}[c["src"]]
    dtype = None if c["dtype"] is None else np.dtype(c["dtype"]).type
    via = c["via"]
    rec.tag(via, f"dtype={c['dtype']}")
    like = Tensor(np.asarray(src))

    def build():
        if via == "Tensor":
            return Tensor(src, requires_grad=True, dtype=dtype)
        if via == "tensor":
            return sg.tensor(src, requires_grad=True, dtype=dtype)
        if via == "Parameter":
            return sg.nn.Parameter(Tensor(src, requires_grad=True, dtype=dtype))
        if via == "ones":
            return sg.ones(2, 3, dtype=dtype, requires_grad=True)
        if via == "zeros":
            return sg.zeros(2, dtype=dtype, requires_grad=True)
        if via == "arange":
            return sg.arange(4, dtype=dtype, requires_grad=True)
        if via == "eye":
            return sg.eye(3, dtype=dtype, requires_grad=True)
        if via == "ones_like":
            return sg.ones_like(like, dtype=dtype, requires_grad=True)
        return sg.zeros_like(like, dtype=dtype, requires_grad=True)

    grad_on = c["ambient"] == "on"
    try:
        if grad_on:
            t = build()
        else:
            with sg.no_grad():
                t = build()
    except Exception as e:  # noqa: BLE001
        t, err = None, e
    if t is None:
        # a refusal is only legitimate when the result would not be floating point
        kind_changes = dtype is not None
        res_float = (np.dtype(dtype).kind == "f") if dtype is not None else None
        if res_float is True and via in ("Tensor", "tensor", "Parameter", "ones", "zeros", "arange", "eye", "ones_like", "zeros_like"):
            raise Violation("float_refused", f"{via}({c['src']}, dtype={c['dtype']}, requires_grad=True) raised {type(err).__name__}: "
                                             f"{err} although the result is floating point; {c}")
        rec.skip = "refused"
        return
    rec.nontrivial(dtype is not None)
    is_float = np.dtype(t.dtype).kind == "f"
    if t.requires_grad and not is_float:
        raise Violation("nonfloat_requires_grad", f"{via}({c['src']}, dtype={c['dtype']}, requires_grad=True) returned a {t.dtype} tensor "
                                                  f"with requires_grad=True; only floating-point tensors may require grad; {c}")
    if is_float and t.requires_grad != grad_on:
        raise Violation("leaf_flag", f"{via}(..., requires_grad=True) under gradient mode {'on' if grad_on else 'off'} returned "
                                     f"requires_grad={t.requires_grad}; {c}")


# ---- contexts that overlap without being nested (a generator suspended inside one, explicit enter/exit) -------
@st.composite
def overlap_cases(draw):
    ev = []
    if draw(st.integers(0, 2)) > 0:
        # planned: a few entries of both kinds, then exits in a drawn order of kinds (so that the entry order is
        # not the reverse of the exit order in most cases)
        kinds = [draw(st.sampled_from(["no_grad", "retain"])) for _ in range(draw(st.integers(2, 4)))]
        if len(set(kinds)) == 1:
            kinds[-1] = "retain" if kinds[0] == "no_grad" else "no_grad"
        for kd in kinds:
            ev.append({"k": draw(st.sampled_from(["enter_", "gen_"])) + kd, "exc": False, "i": 0})
        for kd in draw(st.permutations(kinds)):
            ev.append({"k": "exit_" + kd, "exc": draw(st.integers(0, 5)) == 0, "i": 0})
        return {"events": ev}
    for _ in range(draw(st.integers(2, 10))):
        ev.append({"k": draw(st.sampled_from(["enter_no_grad", "enter_retain", "exit_no_grad", "exit_retain", "exit_no_grad", "exit_retain",
                                              "gen_no_grad", "gen_retain", "resume", "probe"])),
                   "exc": draw(st.integers(0, 5)) == 0, "i": draw(st.integers(0, 3))})
    return {"events": ev}


def check_overlap(c, rec):
    """no_grad and retain_grads govern two independent flags.  Contexts of the SAME kind are left innermost-first;
    contexts of different kinds may be left in any order (generators suspended inside a with-block, explicit
    __enter__/__exit__): each exit restores the mode that was in force for ITS flag when it was entered."""
    it = Interp(rec)
    open_ = {"no_grad": [], "retain": []}        # stacks of (kind, how, object)
    gens = []
    crossed = False
    order = []                                    # global entry order, to detect non-nested exits

    def set_model():
        it.grad_on = not open_["no_grad"]
        it.retain_all = bool(open_["retain"])

    def make_gen(kind):
        def g():
            with (sg.no_grad() if kind == "no_grad" else sg.retain_grads()):
                yield 1
            yield 2
        return g()

    try:
        for e in c["events"]:
            k = e["k"]
            if k in ("enter_no_grad", "enter_retain"):
                kind = "no_grad" if k == "enter_no_grad" else "retain"
                cm = sg.no_grad() if kind == "no_grad" else sg.retain_grads()
                cm.__enter__()
                open_[kind].append(("cm", cm))
                order.append(kind)
                it.trace.append(f"{kind}.__enter__()")
            elif k in ("gen_no_grad", "gen_retain"):
                kind = "no_grad" if k == "gen_no_grad" else "retain"
                g = make_gen(kind)
                next(g)                                 # now suspended inside its with-block
                open_[kind].append(("gen", g))
                order.append(kind)
                it.trace.append(f"generator suspended inside {kind}")
            elif k in ("exit_no_grad", "exit_retain", "resume"):
                kind = "no_grad" if k == "exit_no_grad" else "retain"
                if k == "resume":
                    kind = "no_grad" if e["i"] % 2 else "retain"
                if not open_[kind]:
                    continue
                how, obj = open_[kind].pop()            # innermost of ITS kind
                if order and order[-1] != kind:
                    crossed = True                      # an outer context of the other kind is left first
                # remove the last occurrence of this kind from the global order
                for j in range(len(order) - 1, -1, -1):
                    if order[j] == kind:
                        del order[j]
                        break
                if how == "cm":
                    if e["exc"]:
                        obj.__exit__(Boom, Boom("x"), None)
                    else:
                        obj.__exit__(None, None, None)
                    it.trace.append(f"{kind}.__exit__({'exception' if e['exc'] else ''})")
                else:
                    if e["exc"]:
                        try:
                            obj.throw(Boom("x"))
                        except Boom:
                            pass
                        it.trace.append(f"generator inside {kind} left by exception")
                    else:
                        next(obj)
                        it.trace.append(f"generator inside {kind} resumed past its with-block")
            set_model()
            it.probe(f"after {it.trace[-1] if it.trace else 'start'}")
    finally:
        # leave everything that is still open, innermost of each kind first, so that no mode leaks into the next case
        for kind in ("no_grad", "retain"):
            while open_[kind]:
                how, obj = open_[kind].pop()
                try:
                    obj.__exit__(None, None, None) if how == "cm" else obj.close()
                except Exception:  # noqa: BLE001
                    pass
    set_model()
    it.probe("after every context was left")
    rec.nontrivial(crossed)
    if crossed:
        rec.tag("left_in_entry_order_across_kinds")
    if any(e["k"].startswith("gen_") for e in c["events"]):
        rec.tag("generator_suspended_in_context")


def subchecks():
    from .. import nnops, ops as _ops
    subs = [SubCheck("programs", check_program, programs, quick=300, thorough=4000, shards_quick=8, shards_thorough=16)]
    for op in _ops.OPS:
        subs.append(SubCheck("flag_t_" + op.name, make_flag_check(op), (lambda op=op: flag_case(op)), quick=120, thorough=1500))
    for op in nnops.OPS + [nnops.DROPOUT]:
        subs.append(SubCheck("flag_nn_" + op.name, make_flag_check(op), (lambda op=op: flag_case(op)), quick=100, thorough=1000))
    subs.append(SubCheck("module_freeze_unfreeze", check_freeze, freeze_cases, quick=200, thorough=2000))
    subs.append(SubCheck("flag_two_tensor_losses", check_loss_flags, loss_flag_cases, quick=200, thorough=2000))
    subs.append(SubCheck("iteration_flags", check_iter_flags, iter_flag_cases, quick=300, thorough=3000))
    subs.append(SubCheck("constructor_cast_flag", check_ctor_flag, ctor_flag_cases, quick=400, thorough=4000))
    subs.append(SubCheck("overlapping_contexts", check_overlap, overlap_cases, quick=500, thorough=6000, shards_thorough=2))
    for op in _ops.OPS:
        subs.append(SubCheck("release_t_" + op.name, make_release_check(op), (lambda op=op: release_case(op)), quick=60, thorough=800))
    for op in nnops.OPS:
        subs.append(SubCheck("release_nn_" + op.name, make_release_check(op), (lambda op=op: release_case(op)), quick=60, thorough=600))
    return subs
