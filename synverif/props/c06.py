"""C06 - forward results of nn ops/layers/losses match their documented (PyTorch) definitions."""
import numpy as np
from hypothesis import strategies as st

from .. import gen, nnops, ops, ref_conv as R
from ..core import SubCheck, Violation
from ..env import sg
from .c05 import _cmp

nn = sg.nn
F = sg.nn.functional
Tensor = sg.Tensor

RULE = ("cases: nn op/layer/loss (functional and module forms) x full geometry draw (kernel, stride, padding, "
        "dilation per axis incl. non-square, stride>kernel, non-tiling; int/tuple/list spellings; default stride) "
        "x modes (batch-norm training/eval x affine x running statistics at arbitrary values; reductions; any "
        "softmax dim) x grid values of either sign x {float32,float64}.  Oracle: loop-based float64 reference "
        "models (synverif/nnops.py, ref_conv.py) + accept/reject protocol; plus 'same'/'valid' padding, "
        "no-window rejection, BCE at the clamp, and an enumerated output-size grid.  non-trivial: geometry not "
        "all-default / reduction != mean / eval with running statistics / rank != 2 / module form; distinct by "
        "hash of the whole case"
        " Also: memory layouts, magnitudes, batch-norm data far from its spread (float64), rank-5 batch-norm input, long batches with narrow label dtypes, softmax/cross-entropy rows at far-apart levels, Neuron form."
        " Round 4: pooling over -inf/+inf/lowest-finite values next to padding (exact), float16 data of magnitude 1e3-6e4 (window sum outside the float16 range, mean inside), modules used before on another rank."
        " Round 5: BCE probabilities 1e-40 .. 5e-324 (positive, below exp(-100))."
        " Round 6: activations at +-inf (limits, never NaN)."
        " Round 7: NaN through the activations; loss modules whose .reduction is assigned after construction (run-time built strings).")
ASSUMPTIONS = ["reference models transcribe the PyTorch documentation formulas (cross-correlation, -inf padded "
               "max-pool, zero-padded average counted in the divisor, channel-major unfold rows, scatter-add fold, "
               "biased batch variance / running statistics)",
               "tolerance 1e-4*scale (float32, sums over <=250 terms), 1e-10*scale (float64); bit-exact for max-pool/unfold"]


def make_check(op):
    def check(case, rec):
        args = case["args"]
        shp = ops.shapes_of(case)
        rec.nontrivial(op.nt(args, shp))
        rec.tag(*op.tags(args, shp))
        rec.tag(case["dtype"])
        dt = np.dtype(case["dtype"])
        want = op.ref(ops.arrays(case), args)
        ctx = f"op={op.name} shapes={shp} args={args} dtype={case['dtype']}"
        ts = ops.leaves(case)
        try:
            out = op.apply(ts, args)
        except Exception as e:  # noqa: BLE001
            if op.documented(args, shp):
                raise Violation("rejected_documented",
                                f"{op.name} raised {type(e).__name__}: {e} for a configuration its documentation "
                                f"allows; {ctx}")
            rec.skip = "rejected_not_documented"
            return
        _cmp(op.name, out.data, want, dt, op.exact, ctx, tol64=1e-10, tol32=1e-4)
    return check


# ---- Conv modules with padding='same' / 'valid' ----------------------------------------------------
@st.composite
def same_cases(draw):
    dims = draw(st.sampled_from([1, 2]))
    N, Ci, Co = draw(st.integers(1, 2)), draw(st.integers(1, 2)), draw(st.integers(1, 2))
    k = [draw(st.integers(1, 4)) for _ in range(dims)]
    d = [draw(st.integers(1, 2)) for _ in range(dims)]
    L = [d[i] * (k[i] - 1) + 1 + draw(st.integers(0, 3)) for i in range(dims)]
    mode = draw(st.sampled_from(["same", "same", "valid"]))
    xs = [N, Ci] + L
    ws = [Co, Ci] + k
    return {"dims": dims, "k": k, "d": d, "mode": mode, "x": ops.X(xs, draw(gen.grid(xs, -16, 16))),
            "w": ops.X(ws, draw(gen.grid(ws, -16, 16))), "b": draw(gen.grid([Co], -16, 16)),
            "kspell": draw(st.sampled_from(["int", "tuple"])), "dtype": draw(gen.DTYPES)}


def _asym_conv_ref(x, w, b, d, left, right):
    """cross-correlation, stride 1, with (left,right) zero padding per axis (float64)"""
    dims = x.ndim - 2
    pads = [(0, 0), (0, 0)] + [(left[i], right[i]) for i in range(dims)]
    xp = np.pad(x, pads)
    if dims == 1:
        return R.conv1d_ref(xp, w, b, 1, 0, d[0])
    return R.conv2d_ref(xp, w, b, 1, 0, d)


def check_same(c, rec):
    dt = np.dtype(c["dtype"])
    dims = c["dims"]
    x = gen.arr(c["x"]["v"], c["x"]["shape"], np.float64)
    w = gen.arr(c["w"]["v"], c["w"]["shape"], np.float64)
    b = gen.arr(c["b"], [len(c["b"])], np.float64)
    k, d = c["k"], c["d"]
    square = dims == 1 or (k[0] == k[1])
    kk = k[0] if (dims == 1 or (c["kspell"] == "int" and square)) else tuple(k)
    dd = d[0] if dims == 1 else tuple(d)
    total = [d[i] * (k[i] - 1) for i in range(dims)]
    left = [t // 2 for t in total]
    right = [t - l for t, l in zip(total, left)]
    symmetric = all(t % 2 == 0 for t in total)
    rec.nontrivial(c["mode"] == "same" and (any(q % 2 == 0 for q in k) or any(q > 1 for q in d) or not square))
    rec.tag(c["mode"], "symmetric_padding_possible" if symmetric else "needs_asymmetric_padding")
    cls = nn.Conv1d if dims == 1 else nn.Conv2d
    ctx = f"Conv{dims}d kernel={kk} dilation={dd} padding='{c['mode']}' input={c['x']['shape']}"
    try:
        m = cls(w.shape[1], w.shape[0], kk, padding=c["mode"], dilation=dd)
        m.weight = Tensor(w.astype(dt))
        m.bias = Tensor(b.astype(dt))
        out = m(Tensor(x.astype(dt)))
    except Exception as e:  # noqa: BLE001
        if c["mode"] == "valid" or symmetric:
            raise Violation("rejected_documented", f"{ctx} raised {type(e).__name__}: {e}")
        rec.skip = "rejected_cannot_honour"
        return
    if c["mode"] == "valid":
        want = _asym_conv_ref(x, w, b, d, [0] * dims, [0] * dims)
    else:
        want = _asym_conv_ref(x, w, b, d, left, right)
    _cmp(ctx, out.data, want, dt, False, "", tol64=1e-10, tol32=1e-4)


# ---- geometries without any window must be rejected --------------------------------------------
@st.composite
def nowindow_cases(draw):
    k = draw(st.integers(2, 4)); d = draw(st.integers(1, 3)); s = draw(st.integers(1, 3))
    span = d * (k - 1) + 1
    p = draw(st.integers(0, min(1, (span - 2) // 2)))
    L = draw(st.integers(1, span - 2 * p - 1))
    good = draw(gen.axis_geom(kmax=3, smax=2, dmax=2, pmax=1, extra_max=2))
    return {"bad": {"k": k, "s": s, "d": d, "p": p, "L": L}, "good": good, "bad_first": draw(st.booleans()),
            "op": draw(st.sampled_from(["conv1d", "conv2d", "max_pool1d", "avg_pool1d", "max_pool2d", "avg_pool2d",
                                        "unfold"]))}


def check_nowindow(c, rec):
    bad, good = c["bad"], c["good"]
    rec.nontrivial(True)
    rec.tag(c["op"])
    op = c["op"]
    if op.endswith("1d"):
        ax = [bad]
    else:
        ax = [bad, good] if c["bad_first"] else [good, bad]
    shp = [1, 2] + [a["L"] for a in ax]
    x = Tensor(np.ones(shp))
    g = lambda key: ax[0][key] if len(ax) == 1 else (ax[0][key], ax[1][key])  # noqa: E731
    try:
        if op.startswith("conv"):
            w = Tensor(np.ones([2, 2] + [a["k"] for a in ax]))
            out = getattr(F, op)(x, w, None, g("s"), g("p"), g("d"))
        elif op == "unfold":
            out = F.unfold(x, g("k"), g("d"), g("s"), g("p"))
        else:
            out = getattr(F, op)(x, g("k"), g("s"), g("p"), g("d"))
    except Exception:  # noqa: BLE001
        return
    raise Violation("accepted_no_window", f"{op} returned shape {out.shape} for a configuration without any window: "
                                          f"input {shp} geometry {ax}", region=op)


# ---- BCE at and near the clamp -------------------------------------------------------------------
@st.composite
def bce_edge_cases(draw):
    n = draw(st.integers(1, 6))
    # incl. probabilities that are positive but below e^-100 (3.7e-44): log p < -100, the clamp applies there too;
    # float32 keeps 1e-44 (a denormal), the others round to 0
    p = [draw(st.sampled_from([0.0, 1.0, 0.5, 0.25, 1e-3, 1 - 1e-3, 1e-6, 0.75, 1e-44, 1e-50, 1e-100, 1e-300, 5e-324, 1e-40, 1e-43]))
         for _ in range(n)]
    y = [float(draw(st.sampled_from([0, 1]))) for _ in range(n)]
    return {"p": p, "y": y, "dtype": draw(gen.DTYPES), "reduction": draw(st.sampled_from(["mean", "sum", "none"]))}


def check_bce_edge(c, rec):
    dt = np.dtype(c["dtype"])
    p = np.array(c["p"], dtype=dt)
    y = np.array(c["y"], dtype=dt)
    rec.nontrivial(any(v in (0.0, 1.0) or v < 1e-30 for v in c["p"]))
    if any(0 < v < 3.7e-44 for v in c["p"]):
        rec.tag("positive_probability_below_exp(-100)")
    out = nn.BCELoss(reduction=c["reduction"])(Tensor(p), Tensor(y))
    p64 = p.astype(np.float64)
    per = -(y * np.maximum(np.log(p64), -100.0) + (1 - y) * np.maximum(np.log1p(-p64), -100.0))
    want = {"mean": per.mean(), "sum": per.sum(), "none": per}[c["reduction"]]
    _cmp("BCELoss", out.data, np.asarray(want), dt, False, f"p={c['p']} y={c['y']} reduction={c['reduction']}",
         tol64=1e-6, tol32=1e-4)


# ---- enumerated output-size grid (shapes only) ---------------------------------------------------
def enum_sizes(tier, shard, nshards):
    i = 0
    Lmax = 8 if tier == "thorough" else 6
    for L in range(1, Lmax + 1):
        for k in range(1, 5):
            for s in range(1, 5):
                for p in range(0, 4):
                    for d in range(1, 4):
                        i += 1
                        if i % nshards != shard:
                            continue
                        yield {"L": L, "k": k, "s": s, "p": p, "d": d}


def check_sizes(c, rec):
    L, k, s, p, d = c["L"], c["k"], c["s"], c["p"], c["d"]
    n = R.out_len(L, k, s, p, d)
    x = Tensor(np.arange(2 * L, dtype=np.float64).reshape(1, 2, L))
    w = Tensor(np.ones((3, 2, k)))
    rec.nontrivial(n > 0 and (s > 1 or p > 0 or d > 1))
    calls = {"conv1d": lambda: F.conv1d(x, w, None, s, p, d),
             "avg_pool1d": lambda: F.avg_pool1d(x, k, s, p, d),
             "max_pool1d": lambda: F.max_pool1d(x, k, s, p, d),
             "unfold": lambda: F.unfold(Tensor(x.data.reshape(1, 2, 1, L)), (1, k), (1, d), (1, s), (0, p))}
    for name, fn in calls.items():
        try:
            out = fn()
        except Exception as e:  # noqa: BLE001
            if n > 0:
                raise Violation("rejected_documented", f"{name} raised {type(e).__name__}: {e} for L={L} k={k} s={s} "
                                                       f"p={p} d={d} (formula gives {n} windows)", region=name)
            continue
        if n <= 0:
            raise Violation("accepted_no_window", f"{name} returned shape {out.shape} for L={L} k={k} s={s} p={p} "
                                                  f"d={d} (no window)", region=name)
        got = out.shape[-1]
        if got != n:
            raise Violation("shape", f"{name}: output length {got} != floor((L+2p-d(k-1)-1)/s)+1 = {n} for L={L} k={k} "
                                     f"s={s} p={p} d={d}", region=name)


# ---- pooling over extreme operand values: -inf / +inf / the most negative finite number next to padding, and
#      float16 data whose window SUM leaves the float16 range while its mean does not ---------------------------
@st.composite
def pool_extreme_cases(draw):
    name = draw(st.sampled_from(["max_pool1d", "max_pool2d", "avg_pool1d", "avg_pool2d"]))
    c = draw(ops.full_case(nnops.BY_NAME[name], need_grad=False))
    c["mode"] = name[:3]
    n = int(np.prod(c["xs"][0]["shape"]))
    c["special"] = [draw(st.sampled_from(["-inf", "-inf", "lowest", "+inf", "keep", "keep"])) for _ in range(min(n, 24))]
    c["all_special"] = draw(st.integers(0, 3)) == 0          # every element -inf / lowest: only the padding could win
    c["half"] = draw(st.sampled_from([True, True, False]))
    c["mag"] = draw(st.sampled_from([20000.0, 30000.0, 60000.0, 1000.0]))
    return c


def check_pool_extreme(c, rec):
    shp = c["xs"][0]["shape"]
    args = c["args"]
    dims = len(shp) - 2
    mode = c["mode"]
    op = nnops.BY_NAME[f"{mode}_pool{dims}d"]
    if mode == "max":
        dt = np.dtype(c["dtype"])
        x = gen.arr(c["xs"][0]["v"], shp, dt)
        flat = x.reshape(-1)
        lowest = np.finfo(dt).min
        for i in range(flat.size):
            sp = c["special"][i % len(c["special"])]
            if c["all_special"]:
                sp = "-inf" if sp != "lowest" else "lowest"
            if sp == "-inf":
                flat[i] = -np.inf
            elif sp == "+inf":
                flat[i] = np.inf
            elif sp == "lowest":
                flat[i] = lowest
        rec.tag("max_pool_with_inf")
    else:
        dt = np.dtype(np.float16 if c["half"] else c["dtype"])
        base = gen.arr(c["xs"][0]["v"], shp, np.float64)
        # same sign everywhere (alternating per channel), magnitude near the top of the float16 range
        sign = np.where((np.arange(shp[1]) % 2 == 0), 1.0, -1.0).reshape([1, shp[1]] + [1] * dims)
        x = (sign * (c["mag"] if dt == np.float16 else 1.0) * (1.0 + np.abs(base) / 64.0)).astype(dt)
        rec.tag("avg_pool_float16_large" if dt == np.float16 else "avg_pool_same_sign")
    try:
        out = op.apply([Tensor(x.copy())], args)
    except Exception:  # noqa: BLE001  (acceptance is judged by the ordinary sub-checks)
        rec.skip = "forward_rejected"
        return
    with np.errstate(all="ignore"):
        want = np.asarray(op.ref([x.astype(np.float64)], args))
    got = np.asarray(out.data)
    rec.nontrivial(True)
    ctx = f"op={op.name} shape={shp} args={args} dtype={dt}"
    if got.shape != want.shape:
        raise Violation("shape", f"result shape {got.shape} != reference {want.shape}; {ctx}", region=op.name)
    if out.dtype != dt:
        raise Violation("dtype", f"result dtype {out.dtype} for {dt} data; {ctx}", region=op.name)
    if mode == "max":
        # max pooling selects an element: exact, including infinities ("padding never wins")
        if not np.array_equal(got.astype(np.float64), want):
            i = tuple(np.argwhere(got.astype(np.float64) != want)[0])
            raise Violation("value", f"max pooling: output{list(i)} = {got[i]} but the window's largest REAL element is {want[i]} "
                                     f"(padding never wins, whatever the values); {ctx}", region=op.name)
    else:
        w16 = want.astype(dt).astype(np.float64)           # the exact mean rounded once to the data's dtype
        tol = 4 * float(np.finfo(dt).eps) * np.maximum(np.abs(w16), 1e-30)
        bad = ~(np.abs(got.astype(np.float64) - w16) <= tol)
        bad &= np.isfinite(w16)
        if bad.any():
            i = tuple(np.argwhere(bad)[0])
            raise Violation("value", f"average pooling: output{list(i)} = {got[i]} but the window mean is {want[i]} (representable "
                                     f"in {dt}); {ctx}", region=op.name)


# ---- activations at +-inf (limits exist and are finite or infinite, never NaN) -----------------------------------------
@st.composite
def act_inf_cases(draw):
    n = draw(st.integers(1, 6))
    return {"act": draw(st.sampled_from(["relu", "leaky_relu", "selu", "tanh", "sigmoid"])), "form": draw(st.sampled_from(["fn", "module"])),
            "v": [draw(st.sampled_from(["inf", "-inf", "-inf", 0.0, 1.5, -2.0, 1e30, -1e30, "nan"])) for _ in range(n)], "dtype": draw(gen.DTYPES),
            "slope": draw(st.sampled_from([0.01, 0.2]))}


def check_act_inf(c, rec):
    dt = np.dtype(c["dtype"])
    x = np.array([float(v) for v in c["v"]], dtype=dt)
    rec.nontrivial(bool(np.isinf(x).any()))
    rec.tag(c["act"])
    t = Tensor(x.copy())
    a = c["act"]
    mods = {"relu": lambda: nn.ReLU(), "leaky_relu": lambda: nn.LeakyReLU(c["slope"]), "selu": lambda: nn.SELU(), "tanh": lambda: nn.Tanh(),
            "sigmoid": lambda: nn.Sigmoid()}
    fns = {"relu": lambda u: F.relu(u), "leaky_relu": lambda u: F.leaky_relu(u, c["slope"]), "selu": lambda u: F.selu(u), "tanh": lambda u: F.tanh(u),
           "sigmoid": lambda u: F.sigmoid(u)}
    with np.errstate(all="ignore"):
        out = mods[a]()(t) if c["form"] == "module" else fns[a](t)
        x64 = x.astype(np.float64)
        want = {"relu": lambda: np.where(x64 > 0, x64, 0.0), "leaky_relu": lambda: np.where(x64 > 0, x64, c["slope"] * x64),
                "selu": lambda: nnops.SELU_SCALE * np.where(x64 > 0, x64, nnops.SELU_ALPHA * np.expm1(np.minimum(x64, 0.0))),
                "tanh": lambda: np.tanh(x64), "sigmoid": lambda: np.where(x64 >= 0, 1 / (1 + np.exp(-np.abs(x64))), 1 - 1 / (1 + np.exp(-np.abs(x64))))}[a]()
    got = np.asarray(out.data, dtype=np.float64)
    want = np.where(np.isnan(x64), np.nan, want)                 # NaN in, NaN out (max(0, NaN) is NaN in NumPy and PyTorch)
    with np.errstate(all="ignore"):
        ok = np.where(np.isnan(want), np.isnan(got), np.where(np.isinf(want), got == want, np.abs(got - want) <= 1e-5 * np.maximum(1.0, np.abs(want))))
    if got.shape != want.shape or not np.all(ok):
        i = int(np.argmin(ok))
        raise Violation("value", f"{a}({x[i]!r}) = {got[i]!r}, the limit is {want[i]!r}; {c}", region=a)


def subchecks():
    subs = []
    heavy = {"conv1d", "conv2d", "max_pool2d", "avg_pool2d", "fold", "unfold"}
    for op in nnops.OPS:
        q = 250 if op.name in heavy else 400
        subs.append(SubCheck(op.name, make_check(op), (lambda op=op: ops.full_case(op, need_grad=False)),
                             quick=q, thorough=3000, shards_quick=2, shards_thorough=4))
    subs.append(SubCheck("conv_same_valid", check_same, same_cases, quick=400, thorough=4000))
    subs.append(SubCheck("no_window", check_nowindow, nowindow_cases, quick=300, thorough=3000))
    subs.append(SubCheck("pool_extreme_values", check_pool_extreme, pool_extreme_cases, quick=400, thorough=4000, shards_thorough=2))
    subs.append(SubCheck("activations_at_infinity", check_act_inf, act_inf_cases, quick=300, thorough=3000))
    subs.append(SubCheck("bce_clamp", check_bce_edge, bce_edge_cases, quick=300, thorough=3000))
    subs.append(SubCheck("size_grid", check_sizes, None, enum=enum_sizes, exhaustive=True, shards_quick=4,
                         shards_thorough=8))
    return subs
