"""C10 - results and gradients keep the operand's floating dtype and exact shape."""
import numpy as np
from hypothesis import strategies as st

from .. import gen, nnops, ops
from ..core import SubCheck, Violation
from ..env import sg

Tensor = sg.Tensor

RULE = ("cases: every tensor op and nn op/layer/loss of the catalogues x {float32,float64} x tensor/Python-scalar "
        "operands x result ranks incl. 0-d x broadcasting patterns x upstream gradient of the same or the other "
        "float dtype x (root = the op result | the op result retained as an interior node of a larger graph).  "
        "Oracle: dtype/shape predicates on the result, on every leaf gradient, on the root gradient and on the "
        "retained interior gradient; float32 result agrees with the float64 result to 1e-4*max(1,|.|max).  "
        "non-trivial: result is 0-d, or operands broadcast / have different shapes, or g.dtype != result.dtype, "
        "or a Python-scalar operand, or the retained-interior form; distinct by hash of the case"
        " Also: mixed operand dtypes for the gradient rule, backward re-rooted on leaves, BatchNorm train->eval histories (buffer dtypes), tensors of 4,000-70,000 elements; histories on 0-d..2-d leaves / nn.Parameters of both dtypes (direct backward with either upstream dtype, mixed-dtype graphs, zero_(), Module.zero_grad(), Optimizer.zero_grad()) with .grad dtype and shape checked after every command; tensors of 2^20 - 2^21 elements."
        " Round 6: NumPy-scalar operands keep the tensor's dtype.")
ASSUMPTIONS = ["operands of one call share a dtype (mixed-dtype operands are not part of the statement)",
               "reference shapes come from the NumPy reference models of the catalogues"]


def make_check(op):
    def check(case, rec):
        args = case["args"]
        shp = ops.shapes_of(case)
        dt = np.dtype(case["dtype"])
        other = np.dtype(np.float32 if dt == np.float64 else np.float64)
        rg = case["rg"]
        ctx = f"op={op.name} shapes={shp} args={args} dtype={case['dtype']} g={case['gdtype']} wrap={case['wrap']}"
        ts = ops.leaves(case, rg=rg)
        mixed = case.get("mixed") and len(ts) > 1
        if mixed:
            # "whatever the dtypes of the other operands": operand i takes the other float dtype when mixed[i]
            flags = [bool(case["mixed"][i % len(case["mixed"])]) for i in range(len(ts))]
            mixed = len(set(flags)) > 1
            if mixed:
                for i, t in enumerate(ts):
                    if flags[i]:
                        ts[i] = Tensor(t.data.astype(other), requires_grad=bool(rg[i]))
        try:
            out = op.apply(ts, args)
        except Exception:  # noqa: BLE001
            rec.skip = "forward_rejected"
            return
        outs = list(out) if isinstance(out, (tuple, list)) else [out]
        for o in outs:
            if not mixed and o.dtype != dt:
                raise Violation("result_dtype", f"result dtype {o.dtype} for {dt} operands (result shape {o.shape}); {ctx}")
        if op.ref is not None:
            want = op.ref(ops.arrays(case), args)
            wants = list(want) if isinstance(want, (tuple, list)) else [want]
            for o, w in zip(outs, wants):
                if tuple(o.shape) != tuple(np.shape(w)):
                    raise Violation("result_shape", f"result shape {o.shape} != reference {np.shape(w)}; {ctx}")
        # float32 vs float64 agreement
        try:
            if mixed or any(args.get("offset", [])):
                raise RuntimeError("skip")      # (offset batch-norm data is sized for the case's dtype only)
            out2 = op.apply(ops.leaves(case, dtype=other), args)
            outs2 = list(out2) if isinstance(out2, (tuple, list)) else [out2]
            for o, o2 in zip(outs, outs2):
                a, b = np.asarray(o.data, dtype=np.float64), np.asarray(o2.data, dtype=np.float64)
                if a.shape != b.shape:
                    raise Violation("result_shape", f"float32 and float64 results differ in shape: {a.shape} vs {b.shape}; {ctx}")
                if a.size and np.abs(a - b).max() > 1e-4 * max(1.0, np.abs(b).max()):
                    raise Violation("f32_f64_disagree", f"float32 and float64 results differ by {np.abs(a - b).max():.3e}; {ctx}")
        except Violation:
            raise
        except Exception:  # noqa: BLE001
            pass
        o = ops.pick(out, case)
        zero_d = o.ndim == 0
        if mixed:
            rec.tag("mixed_operand_dtypes")
        nt = mixed or zero_d or case["gdtype"] == "other" or case["wrap"] or len({tuple(s) for s in shp}) > 1 or op.name == "scalar_arith"
        rec.nontrivial(nt)
        rec.tag(case["dtype"], "g_" + case["gdtype"], "result_0d" if zero_d else "result_nd", "wrapped" if case["wrap"] else "root")
        if not o.requires_grad:
            rec.skip = "no_grad_result"
            return
        gdt = dt if case["gdtype"] == "same" else other
        root = o
        if case["wrap"]:
            o.retain_grad()
            root = o * 2.0
            if not mixed and root.dtype != dt:
                raise Violation("result_dtype", f"(result * 2.0) has dtype {root.dtype} for {dt} operands; {ctx}")
        if mixed:
            gdt = dt if case["gdtype"] == "same" else other
        g = gen.cyc(case["g"], root.shape, gdt)
        try:
            root.backward(Tensor(g))
        except Exception:  # noqa: BLE001  (C01/C02 own backward completion)
            rec.skip = "backward_raised"
            return
        # backward called directly on leaves that already hold a gradient, with an upstream gradient of the other dtype
        for i, t in enumerate(ts):
            if rg[i] and t.grad is not None and case["gdtype"] == "other":
                t.backward(Tensor(np.ones(t.shape, dtype=gdt)))
                rec.tag("leaf_as_root_again")
        holders = [("root", root)] + ([("retained interior", o)] if case["wrap"] else [])
        holders += [(f"operand {i}", t) for i, t in enumerate(ts) if rg[i]]
        for name, t in holders:
            gr = t.grad
            if gr is None:
                continue
            if tuple(gr.shape) != tuple(t.shape):
                raise Violation("grad_shape", f"{name}: grad shape {gr.shape} != tensor shape {t.shape}; {ctx}",
                                region="root" if name == "root" else None)
            if gr.dtype != t.dtype:
                raise Violation("grad_dtype", f"{name}: grad dtype {gr.dtype} != tensor dtype {t.dtype} "
                                              f"(upstream gradient dtype {gdt}); {ctx}",
                                region="root" if name == "root" else None)
    return check


@st.composite
def mixed_case(draw, op):
    c = draw(ops.full_case(op))
    if draw(st.integers(0, 2)) == 0:
        c["mixed"] = [draw(st.booleans()) for _ in range(3)]
    return c


# ---- histories on leaves / parameters of both dtypes: .grad keeps the tensor's dtype and shape ------------
class _Holder(sg.nn.Module):
    def forward(self, x):
        return x


@st.composite
def leaf_hist_cases(draw):
    n = draw(st.integers(2, 4))
    leaves = [{"shape": draw(st.sampled_from([[], [], [1], [3], [2, 3], [1, 1]])), "dtype": draw(st.sampled_from(["float32", "float64"])),
               "param": draw(st.booleans())} for _ in range(n)]
    cmds = []
    for _ in range(draw(st.integers(2, 9))):
        k = draw(st.sampled_from(["direct", "direct", "graph", "graph", "zero_", "module_zero_grad", "optimizer_zero_grad"]))
        cmds.append({"k": k, "i": draw(st.integers(0, 7)), "j": draw(st.integers(0, 7)), "gdtype": draw(st.sampled_from(["same", "other"])),
                     "op": draw(st.sampled_from(["mul", "add", "matmul_like", "stack"]))})
    return {"leaves": leaves, "cmds": cmds}


def check_leaf_hist(c, rec):
    ts = []
    for i, l in enumerate(c["leaves"]):
        dt = np.dtype(l["dtype"])
        t = Tensor(np.full(l["shape"], 0.5 + i, dtype=dt), requires_grad=True)
        ts.append(sg.nn.Parameter(t) if l["param"] else t)
    holder = _Holder()
    for i, t in enumerate(ts):
        if c["leaves"][i]["param"]:
            setattr(holder, f"p{i}", t)
    params = [t for i, t in enumerate(ts) if c["leaves"][i]["param"]]
    opt = sg.optim.SGD(params, lr=0.1) if params else None
    hist = []
    kinds = set()

    def verify():
        for i, t in enumerate(ts):
            g = t.grad
            if g is None:
                continue
            if tuple(g.shape) != tuple(t.shape):
                raise Violation("grad_shape", f"leaf {i} {c['leaves'][i]}: grad shape {g.shape} != {t.shape}; history={hist}", region="leaf_history")
            if g.dtype != t.dtype:
                raise Violation("grad_dtype", f"leaf {i} {c['leaves'][i]}: grad dtype {g.dtype} != tensor dtype {t.dtype}; history={hist}",
                                region="leaf_history")

    for cmd in c["cmds"]:
        a = ts[cmd["i"] % len(ts)]
        b = ts[cmd["j"] % len(ts)]
        k = cmd["k"]
        try:
            if k == "direct":
                gdt = a.dtype if cmd["gdtype"] == "same" else (np.float32 if a.dtype == np.float64 else np.float64)
                a.backward(Tensor(np.ones(a.shape, dtype=gdt)))
                hist.append(f"leaf{cmd['i'] % len(ts)}.backward(g:{np.dtype(gdt)})")
            elif k == "graph":
                if cmd["op"] == "stack" and a.shape == b.shape:
                    r = sg.stack([a, b], 0).sum()
                elif cmd["op"] == "add":
                    r = (a.sum() + b.sum())
                else:
                    r = (a.sum() * b.sum())
                r.backward()
                hist.append(f"({cmd['op']} of leaf{cmd['i'] % len(ts)}, leaf{cmd['j'] % len(ts)}).backward()")
                if a.dtype != b.dtype:
                    kinds.add("mixed_dtype_graph")
            elif k == "zero_":
                a.zero_()
                hist.append(f"leaf{cmd['i'] % len(ts)}.zero_()")
            elif k == "module_zero_grad":
                holder.zero_grad()
                hist.append("module.zero_grad()")
                kinds.add("module_zero_grad")
            elif k == "optimizer_zero_grad" and opt is not None:
                opt.zero_grad()
                hist.append("optimizer.zero_grad()")
            else:
                continue
        except Exception as e:  # noqa: BLE001
            raise Violation("history_raised", f"{k} raised {type(e).__name__}: {e}; history={hist}", region="leaf_history")
        verify()
    rec.nontrivial(len(hist) >= 3 and len({l["dtype"] for l in c["leaves"]}) == 2)
    rec.tag(*sorted(kinds))
    if any(l["shape"] == [] for l in c["leaves"]):
        rec.tag("0d_leaf")


# ---- batch-norm layers over a short train/eval history: buffers and outputs keep the layer dtype ----
@st.composite
def bn_hist_cases(draw):
    C = draw(st.integers(1, 3))
    rank = draw(st.sampled_from([2, 3, 4]))
    shp = [draw(st.integers(2, 4)), C] + [draw(st.integers(1, 3)) for _ in range(rank - 2)]
    return {"shape": shp, "v": draw(gen.distinct(shp)), "dtype": draw(st.sampled_from(["float32", "float64"])),
            "modes": draw(st.lists(st.booleans(), min_size=1, max_size=5)),
            "momentum": draw(st.sampled_from([0.1, None, 0.5])), "affine": draw(st.booleans())}


def check_bn_hist(c, rec):
    dt = np.dtype(c["dtype"])
    x = gen.arr(c["v"], c["shape"], dt)
    cls = sg.nn.BatchNorm2d if len(c["shape"]) == 4 else sg.nn.BatchNorm1d
    m = cls(c["shape"][1], momentum=c["momentum"], affine=c["affine"], dtype=dt.type)
    rec.nontrivial(any(c["modes"]) and not all(c["modes"]))
    for i, training in enumerate(c["modes"]):
        m.train() if training else m.eval()
        t = Tensor(x.copy(), requires_grad=True)
        out = m(t)
        hist = f"history(train?)={c['modes'][:i + 1]} shape={c['shape']} dtype={c['dtype']} momentum={c['momentum']}"
        if out.dtype != dt:
            raise Violation("result_dtype", f"BatchNorm output dtype {out.dtype} for {dt} input and {dt} layer; {hist}")
        for name in ("running_mean", "running_var"):
            b = getattr(m, name)
            if b.dtype != dt or tuple(b.shape) != (c["shape"][1],):
                raise Violation("buffer_dtype", f"{name} has dtype {b.dtype} shape {b.shape} in a {dt} layer; {hist}")
        out.backward(Tensor(np.ones(out.shape, dtype=dt)))
        if t.grad.dtype != dt or t.grad.shape != t.shape:
            raise Violation("grad_dtype", f"input grad dtype {t.grad.dtype} shape {t.grad.shape}; {hist}")
        for p in m.parameters():
            if p.grad is not None and (p.grad.dtype != p.dtype or p.grad.shape != p.shape):
                raise Violation("grad_dtype", f"parameter grad dtype {p.grad.dtype} != {p.dtype}; {hist}")


# ---- large tensors (thousands of elements): dtype of results and gradients only -----------------------------------
BIG_OPS = {
    "sum": lambda x, w: x.sum(), "mean": lambda x, w: x.mean(), "mean_dim": lambda x, w: x.mean(0), "max": lambda x, w: x.max(1),
    "exp": lambda x, w: (x * 0.01).exp(), "log": lambda x, w: (x * x + 1.0).log(), "sqrt": lambda x, w: (x * x + 1.0).sqrt(),
    "mul": lambda x, w: x * x, "matmul": lambda x, w: x @ w, "softmax": lambda x, w: sg.softmax(x, 1),
    "log_softmax": lambda x, w: sg.log_softmax(x, -1), "relu": lambda x, w: sg.relu(x), "tanh": lambda x, w: sg.tanh(x),
    "mse_mean": lambda x, w: sg.nn.MSELoss()(x, x * 0.5), "linear": lambda x, w: sg.linear(x, w.transpose(0, 1)),
    "reshape_sum": lambda x, w: x.reshape((-1,)).sum(), "flatten_mean": lambda x, w: x.flatten().mean(),
    "ce_mean": lambda x, w: sg.nn.CrossEntropyLoss()(x, Tensor(np.arange(x.shape[0]) % x.shape[1])),
    "bce_logits_mean": lambda x, w: sg.nn.BCEWithLogitsLoss()(x, Tensor((np.arange(x.data.size).reshape(x.shape) % 2).astype(x.dtype))),
    "avg_pool": lambda x, w: sg.avg_pool2d(x.reshape((1, 1) + tuple(x.shape)), 2),
    "batch_norm": lambda x, w: sg.batch_norm(x),
}


@st.composite
def big_cases(draw):
    return {"op": draw(st.sampled_from(sorted(BIG_OPS))), "n": draw(st.sampled_from([70, 130, 300, 1100])),
            "m": draw(st.sampled_from([64, 40, 66])), "dtype": draw(st.sampled_from(["float32", "float32", "float64"])),
            "gother": draw(st.booleans())}


@st.composite
def huge_cases(draw):
    """a million elements and more: where an implementation might switch algorithm or accumulator"""
    return {"op": draw(st.sampled_from(["sum", "mean", "mean_dim", "max", "mul", "softmax", "log_softmax", "relu", "tanh", "mse_mean",
                                        "reshape_sum", "flatten_mean", "bce_logits_mean", "exp", "sqrt"])),
            "n": draw(st.sampled_from([16384, 16400, 32768, 33000])), "m": draw(st.sampled_from([64, 66])),
            "dtype": draw(st.sampled_from(["float32", "float32", "float64"])), "gother": draw(st.booleans())}


def check_big(c, rec):
    dt = np.dtype(c["dtype"])
    other = np.dtype(np.float32 if dt == np.float64 else np.float64)
    n, m = c["n"], c["m"]
    rec.nontrivial(n * m > 4096)
    rec.tag(c["op"], c["dtype"])
    x = Tensor(((np.arange(n * m).reshape(n, m) * 37 % 101) / 50.0 - 1.0).astype(dt), requires_grad=True)
    w = Tensor(((np.arange(m * 8).reshape(m, 8) * 13 % 17) / 17.0).astype(dt), requires_grad=True)
    out = BIG_OPS[c["op"]](x, w)
    ctx = f"{c}"
    if out.dtype != dt:
        raise Violation("result_dtype", f"{c['op']} on a {dt} tensor of {n}x{m} elements returned {out.dtype}; {ctx}")
    g = Tensor(np.ones(out.shape, dtype=other if c["gother"] else dt))
    out.backward(g)
    for name, t in (("input", x), ("weight", w), ("result", out)):
        gr = t.grad
        if gr is not None and (gr.dtype != t.dtype or gr.shape != t.shape):
            raise Violation("grad_dtype", f"{c['op']}: {name} grad is {gr.dtype}{gr.shape} for a {t.dtype}{t.shape} tensor; {ctx}")


def subchecks():
    subs = []
    heavy = {"conv1d", "conv2d", "max_pool2d", "avg_pool2d", "fold", "unfold", "batch_norm"}
    for op in ops.OPS:
        subs.append(SubCheck("t_" + op.name, make_check(op), (lambda op=op: mixed_case(op)),
                             quick=250, thorough=3000, shards_quick=1, shards_thorough=2))
    for op in nnops.OPS + [nnops.DROPOUT]:
        subs.append(SubCheck("nn_" + op.name, make_check(op), (lambda op=op: mixed_case(op)),
                             quick=150 if op.name in heavy else 250, thorough=2000, shards_quick=1, shards_thorough=2))
    subs.append(SubCheck("bn_history", check_bn_hist, bn_hist_cases, quick=300, thorough=3000))
    subs.append(SubCheck("leaf_history", check_leaf_hist, leaf_hist_cases, quick=500, thorough=6000, shards_quick=2, shards_thorough=4))
    subs.append(SubCheck("huge_tensors", check_big, huge_cases, quick=3, thorough=12, shards_quick=8, shards_thorough=16))
    subs.append(SubCheck("large_tensors", check_big, big_cases, quick=120, thorough=1500, shards_quick=2, shards_thorough=4))
    return subs
