"""C10 - results and gradients keep the operand's floating dtype and exact shape."""
import numpy as np

from .. import gen, nnops, ops
from ..core import SubCheck, Violation
from ..env import sg

Tensor = sg.Tensor

RULE = ("cases: every tensor op and nn op/layer/loss of the catalogues x {float32,float64} x tensor/Python-scalar "
        "operands x result ranks incl. 0-d x broadcasting patterns x upstream gradient of the same or the other "
        "float dtype x (root = the op result | the op result retained as an interior node of a larger graph).  "
        "Oracle: dtype/shape predicates on the result, on every leaf gradient, on the root gradient and on the "
        "retained interior gradient; float32 result agrees with the float64 result to 1e-4*max(1,|.|max).  "
        "non-trivial: result is 0-d, or operands broadcast / have different shapes, or g.dtype != result.dtype, "
        "or a Python-scalar operand, or the retained-interior form; distinct by hash of the case")
ASSUMPTIONS = ["operands of one call share a dtype (mixed-dtype operands are not part of the statement)",
               "reference shapes come from the NumPy reference models of the catalogues"]


def make_check(op):
    def check(case, rec):
        args = case["args"]
        shp = ops.shapes_of(case)
        dt = np.dtype(case["dtype"])
        other = np.dtype(np.float32 if dt == np.float64 else np.float64)
        rg = case["rg"]
        ctx = f"op={op.name} shapes={shp} args={args} dtype={case['dtype']} g={case['gdtype']} wrap={case['wrap']}"
        ts = ops.leaves(case, rg=rg)
        try:
            out = op.apply(ts, args)
        except Exception:  # noqa: BLE001
            rec.skip = "forward_rejected"
            return
        outs = list(out) if isinstance(out, (tuple, list)) else [out]
        for o in outs:
            if o.dtype != dt:
                raise Violation("result_dtype", f"result dtype {o.dtype} for {dt} operands (result shape {o.shape}); {ctx}")
        if op.ref is not None:
            want = op.ref(ops.arrays(case), args)
            wants = list(want) if isinstance(want, (tuple, list)) else [want]
            for o, w in zip(outs, wants):
                if tuple(o.shape) != tuple(np.shape(w)):
                    raise Violation("result_shape", f"result shape {o.shape} != reference {np.shape(w)}; {ctx}")
        # float32 vs float64 agreement
        try:
            out2 = op.apply(ops.leaves(case, dtype=other), args)
            outs2 = list(out2) if isinstance(out2, (tuple, list)) else [out2]
            for o, o2 in zip(outs, outs2):
                a, b = np.asarray(o.data, dtype=np.float64), np.asarray(o2.data, dtype=np.float64)
                if a.shape != b.shape:
                    raise Violation("result_shape", f"float32 and float64 results differ in shape: {a.shape} vs {b.shape}; {ctx}")
                if a.size and np.abs(a - b).max() > 1e-4 * max(1.0, np.abs(b).max()):
                    raise Violation("f32_f64_disagree", f"float32 and float64 results differ by {np.abs(a - b).max():.3e}; {ctx}")
        except Violation:
            raise
        except Exception:  # noqa: BLE001
            pass
        o = ops.pick(out, case)
        zero_d = o.ndim == 0
        nt = zero_d or case["gdtype"] == "other" or case["wrap"] or len({tuple(s) for s in shp}) > 1 or op.name == "scalar_arith"
        rec.nontrivial(nt)
        rec.tag(case["dtype"], "g_" + case["gdtype"], "result_0d" if zero_d else "result_nd", "wrapped" if case["wrap"] else "root")
        if not o.requires_grad:
            rec.skip = "no_grad_result"
            return
        gdt = dt if case["gdtype"] == "same" else other
        root = o
        if case["wrap"]:
            o.retain_grad()
            root = o * 2.0
            if root.dtype != dt:
                raise Violation("result_dtype", f"(result * 2.0) has dtype {root.dtype} for {dt} operands; {ctx}")
        g = gen.cyc(case["g"], root.shape, gdt)
        try:
            root.backward(Tensor(g))
        except Exception:  # noqa: BLE001  (C01/C02 own backward completion)
            rec.skip = "backward_raised"
            return
        holders = [("root", root)] + ([("retained interior", o)] if case["wrap"] else [])
        holders += [(f"operand {i}", t) for i, t in enumerate(ts) if rg[i]]
        for name, t in holders:
            gr = t.grad
            if gr is None:
                continue
            if tuple(gr.shape) != tuple(t.shape):
                raise Violation("grad_shape", f"{name}: grad shape {gr.shape} != tensor shape {t.shape}; {ctx}",
                                region="root" if name == "root" else None)
            if gr.dtype != t.dtype:
                raise Violation("grad_dtype", f"{name}: grad dtype {gr.dtype} != tensor dtype {t.dtype} "
                                              f"(upstream gradient dtype {gdt}); {ctx}",
                                region="root" if name == "root" else None)
    return check


def subchecks():
    subs = []
    heavy = {"conv1d", "conv2d", "max_pool2d", "avg_pool2d", "fold", "unfold", "batch_norm"}
    for op in ops.OPS:
        subs.append(SubCheck("t_" + op.name, make_check(op), (lambda op=op: ops.full_case(op)),
                             quick=250, thorough=3000, shards_quick=1, shards_thorough=2))
    for op in nnops.OPS + [nnops.DROPOUT]:
        subs.append(SubCheck("nn_" + op.name, make_check(op), (lambda op=op: ops.full_case(op)),
                             quick=150 if op.name in heavy else 250, thorough=2000, shards_quick=1, shards_thorough=2))
    return subs
