"""C18 - dataset split, batching and one-hot encoding lose or misalign no sample."""
from fractions import Fraction
import math

import numpy as np
from hypothesis import strategies as st

from ..core import SubCheck, Violation
from ..env import sg

import importlib
data = importlib.import_module("synapgrad.nn.utils.data")

RULE = ("cases: dataset length 0-60 (decodable samples X[i]=(i,2i+1), y[i]=i) x test/validation fractions from a "
        "pool of awkward decimals and arbitrary floats in [0,1] (validation None allowed) x shuffle off / on with a "
        "drawn seed; DataLoader: batch size 1..n+3 x with a recording transform / a transform returning new objects "
        "/ no transform x two passes; one_hot_encode over label sets with gaps, negatives, floats, strings; plus an "
        "enumerated grid of small lengths x fraction pool x batch sizes.  Oracle: partition / pairing / order / size "
        "predicates (floor rule evaluated in float64 or exact rational arithmetic - either accepted) and a reference "
        "one-hot.  non-trivial: n not a multiple of the batch size, or both splits strictly between 0 and 1, or "
        "shuffle on, or labels with gaps; distinct by hash of the case"
        " Also: label/feature arrays with trailing dimensions, transforms returning a 3-tuple / dict / arbitrary object (the yielded batch must be that object), labels a narrower type would merge (doubles 1e-9 apart, integers beyond 2^24 / 2^31)."
        " Round 5: falsy transform objects; split fractions within 1e-9..1e-12 below j/n and nextafter(1, 0)."
        " Round 6: indexed reads loader[i] in the middle of a pass.")
ASSUMPTIONS = ["sample ids < 2^24 so they are exact in the float32 arrays split_dataset returns",
               "the floor rule may be evaluated in float64 or in exact rational arithmetic; both are accepted"]

FRACS = [0.0, 1.0, 0.2, 0.29, 0.3, 0.7, 1 / 3, 0.1, 0.5, 0.25, 0.58, 0.57, 0.9, 0.99, 0.15, 0.35, 0.6]


@st.composite
def split_cases(draw):
    n = draw(st.one_of(st.integers(0, 60), st.sampled_from([97, 128, 250, 1000])))
    f = st.one_of(st.sampled_from(FRACS), st.floats(0, 1, allow_nan=False).map(lambda v: round(v, 3)))
    ends = st.sampled_from([0, 1, True, False])           # the end points of [0,1] spelled as Python ints / bools
    f = st.one_of(f, f, f, ends)
    c = {"n": n, "test": draw(f), "val": draw(st.one_of(st.none(), f)), "shuffle": draw(st.booleans()),
         "seed": draw(st.integers(0, 2 ** 31 - 1)), "default_test": draw(st.integers(0, 7)) == 0}
    if n >= 1 and draw(st.integers(0, 4)) == 0:
        # fractions a hair below j/n (and the largest double below 1): the floor rule gives j-1 (resp. n-1), an
        # implementation that rounds the product first gives j
        j = draw(st.integers(1, n))
        eps = draw(st.sampled_from([1e-9, 1e-10, 1e-12, None]))
        c["test"] = float(np.nextafter(1.0, 0.0)) if eps is None else max(0.0, (j - eps) / n)
        c["default_test"] = False
        c["just_below"] = True
    return c


def _floor_sizes(frac, n):
    frac = float(frac)
    a = int(math.floor(frac * n))
    b = int(math.floor(Fraction(str(frac)) * n))
    return {a, b}


def check_split(c, rec):
    n = c["n"]
    X = [[i, 2 * i + 1] for i in range(n)]
    y = [i for i in range(n)]
    test = 0.2 if c["default_test"] else c["test"]
    kw = {}
    if not c["default_test"]:
        kw["test_split"] = test
    if c["val"] is not None:
        kw["val_split"] = c["val"]
    if c["shuffle"]:
        kw["shuffle"] = True
    if c.get("just_below"):
        rec.tag("fraction_just_below_j/n")
    both = 0 < test < 1 and c["val"] is not None and 0 < c["val"] < 1
    rec.nontrivial(n >= 2 and (both or c["shuffle"]))
    ctx = f"n={n} test_split={test} val_split={c['val']} shuffle={c['shuffle']} seed={c['seed']}"

    def run():
        sg.manual_seed(c["seed"])
        try:
            return data.split_dataset(X, y, **kw)
        except Exception as e:  # noqa: BLE001
            raise Violation("split_raised", f"split_dataset raised {type(e).__name__}: {e}; {ctx}")

    train, tst, val = run()
    if c["val"] is None:
        if val is not None:
            raise Violation("split_shape", f"val_split=None but a validation set was returned; {ctx}")
        parts = [("train", train), ("test", tst)]
    else:
        if val is None:
            raise Violation("split_shape", f"val_split given but no validation set returned; {ctx}")
        parts = [("train", train), ("test", tst), ("validation", val)]
    ids = {}
    for name, (Xp, yp) in parts:
        Xp, yp = np.asarray(Xp), np.asarray(yp)
        if len(Xp) != len(yp):
            raise Violation("split_pairing", f"{name}: {len(Xp)} feature rows but {len(yp)} labels; {ctx}")
        for r in range(len(yp)):
            i = int(yp[r])
            if len(Xp) and (int(Xp[r][0]) != i or int(Xp[r][1]) != 2 * i + 1):
                raise Violation("split_pairing", f"{name}: feature row {Xp[r].tolist()} is paired with label {yp[r]}; {ctx}")
        ids[name] = [int(v) for v in yp]
    allids = sum(ids.values(), [])
    if sorted(allids) != list(range(n)):
        missing = sorted(set(range(n)) - set(allids))
        dup = sorted({v for v in allids if allids.count(v) > 1})
        raise Violation("split_partition", f"not a partition: missing {missing[:5]} duplicated {dup[:5]}; {ctx}")
    nt_ok = _floor_sizes(test, n)
    if len(ids["test"]) not in nt_ok:
        raise Violation("split_sizes", f"|test| = {len(ids['test'])}, floor rule gives {sorted(nt_ok)}; {ctx}")
    if c["val"] is not None:
        rest = n - len(ids["test"])
        nv_ok = _floor_sizes(c["val"], rest)
        if len(ids["validation"]) not in nv_ok:
            raise Violation("split_sizes", f"|validation| = {len(ids['validation'])}, floor rule on the remaining {rest} "
                                           f"gives {sorted(nv_ok)}; {ctx}")
    if not c["shuffle"]:
        order = ids["test"] + (ids["validation"] if c["val"] is not None else []) + ids["train"]
        if order != list(range(n)):
            raise Violation("split_order", f"shuffle off but test/validation/train are not consecutive runs of the "
                                           f"original order: test={ids['test'][:4]} val={ids.get('validation', [])[:4]} "
                                           f"train={ids['train'][:4]}; {ctx}")
    else:
        again = run()
        for (nm, (Xa, ya)), pb in zip(parts, [p for p in again if p is not None]):
            if not np.array_equal(np.asarray(ya), np.asarray(pb[1])) or not np.array_equal(np.asarray(Xa), np.asarray(pb[0])):
                raise Violation("split_seed", f"same seed, different split ({nm}); {ctx}")
        if n >= 12 and 0 < len(ids["test"]) and ids["test"] + ids["train"] == list(range(n)) and c["val"] is None:
            rec.tag("shuffle_left_order")   # possible but (n!)^-1 unlikely; recorded, not asserted


# ---- DataLoader -----------------------------------------------------------------------------------
@st.composite
def loader_cases(draw):
    n = draw(st.one_of(st.integers(0, 40), st.sampled_from([64, 100, 257])))
    return {"n": n, "batch": draw(st.one_of(st.integers(1, n + 3), st.integers(1, 9))),
            "transform": draw(st.sampled_from(["none", "none_default", "record", "new_objects", "triple", "dict", "one_object", "falsy_record"])),
            "partial_first_pass": draw(st.integers(0, 3)),
            # label arrays are per-sample along axis 0 whatever their trailing shape (id vector, column, one-hot rows,
            # several targets); same for the features
            "getitem_during_pass": draw(st.booleans()),
            "yshape": draw(st.sampled_from(["vector", "vector", "column", "wide3", "wide2x2"])),
            "xshape": draw(st.sampled_from(["matrix", "matrix", "vector", "image"]))}


def check_loader(c, rec):
    n, b = c["n"], c["batch"]
    X = np.array([[i, 2 * i + 1] for i in range(n)], dtype=np.float32).reshape(n, 2)
    y = np.arange(n, dtype=np.float32)
    ys, xs = c.get("yshape", "vector"), c.get("xshape", "matrix")
    if ys == "column":
        y = y.reshape(n, 1)
    elif ys == "wide3":
        y = np.stack([y, -y, 2 * y + 1], axis=1).reshape(n, 3)
    elif ys == "wide2x2":
        y = np.stack([y, -y, 2 * y + 1, y + 0.5], axis=1).reshape(n, 2, 2)
    if xs == "vector":
        X = X[:, 0].copy()
    elif xs == "image":
        X = np.stack([X, X + 0.25], axis=1).reshape(n, 1, 2, 2)
    rec.tag("labels_" + ys, "features_" + xs)
    calls = []

    class Rec(data.DataLoaderCallback):
        def __call__(self, loader, Xb, yb):
            calls.append((loader, np.array(Xb), np.array(yb)))
            return Xb, yb

    class New(data.DataLoaderCallback):
        def __call__(self, loader, Xb, yb):
            calls.append((loader, np.array(Xb), np.array(yb)))
            return ("X", np.array(Xb) * 2.0), ("y", np.array(yb) + 100.0)

    produced = []

    class Shaped(data.DataLoaderCallback):
        """what a transform returns IS the batch: a 3-tuple (features, mask, labels), a dict, any single object"""
        def __call__(self, loader, Xb, yb):
            calls.append((loader, np.array(Xb), np.array(yb)))
            if t == "triple":
                r = (np.array(Xb), np.ones(len(yb), dtype=bool), np.array(yb))
            elif t == "dict":
                r = {"features": np.array(Xb), "labels": np.array(yb)}
            else:
                r = ["batch", np.array(Xb), np.array(yb), len(produced)]
            produced.append(r)
            return r

    class FalsyRec(Rec):
        """a transform object whose truth value is False (a pipeline with zero stages): it is still a transform"""
        def __len__(self):
            return 0

    t = c["transform"]
    if t == "falsy_record":
        dl = data.DataLoader(X, y, b, transform=FalsyRec())
        t = "record"
        rec.tag("transform_falsy_object")
    elif t in ("triple", "dict", "one_object"):
        dl = data.DataLoader(X, y, b, transform=Shaped())
    elif t == "none":
        dl = data.DataLoader(X, y, b, transform=None)
    elif t == "none_default":
        dl = data.DataLoader(X, y, b)
    else:
        dl = data.DataLoader(X, y, b, transform=Rec() if t == "record" else New())
    rec.nontrivial(n % b != 0 or n < b)
    rec.tag("transform_" + t)
    ctx = f"n={n} batch_size={b} transform={t} X{X.shape} y{y.shape}"
    want_len = n // b
    if len(dl) != want_len:
        raise Violation("loader_len", f"len(loader) = {len(dl)}, expected floor(n/batch) = {want_len}; {ctx}")

    peek_inside = bool(c.get("getitem_during_pass")) and t in ("none", "none_default")

    def one_pass(limit=None):
        out = []
        try:
            for j, batch in enumerate(dl):
                out.append(batch)
                if peek_inside and want_len:
                    dl[(j * 2 + 1) % want_len]          # an indexed look-up in the middle of a pass is a pure read
                if limit is not None and j + 1 >= limit:
                    break
        except Exception as e:  # noqa: BLE001
            raise Violation("loader_raised", f"iterating the DataLoader raised {type(e).__name__}: {e}; {ctx}",
                            region="no_transform" if t.startswith("none") else None)
        return out

    if peek_inside:
        rec.tag("indexed_reads_during_a_pass")
    if c["partial_first_pass"] and want_len > 1:
        one_pass(limit=min(c["partial_first_pass"], want_len - 1))   # abandon a pass half-way
        rec.tag("abandoned_pass")
    calls.clear()
    for pass_no in (1, 2):
        calls.clear()
        batches = one_pass()
        if len(batches) != want_len:
            raise Violation("loader_count", f"pass {pass_no} yielded {len(batches)} batches, expected {want_len}; {ctx}")
        if t in ("triple", "dict", "one_object"):
            mine = produced[-len(batches):] if batches else []
            for j, batch in enumerate(batches):
                if batch is not mine[j]:
                    raise Violation("loader_transform", f"pass {pass_no} batch {j}: the loader yielded {type(batch).__name__} "
                                                        f"{str(batch)[:80]!r}, not the object the transform returned "
                                                        f"({type(mine[j]).__name__}); {ctx}")
            batches = []
        for j, batch in enumerate(batches):
            lo, hi = j * b, (j + 1) * b
            if t == "new_objects":
                (tagx, Xb), (tagy, yb) = batch
                if tagx != "X" or tagy != "y":
                    raise Violation("loader_transform", f"the transform's return value is not what is yielded; {ctx}")
                Xb, yb = Xb / 2.0, yb - 100.0
            else:
                try:
                    Xb, yb = batch
                except Exception:  # noqa: BLE001
                    raise Violation("loader_batch_form", f"batch {j} is not an (X_batch, y_batch) pair: {type(batch)}; {ctx}")
            Xb, yb = np.asarray(Xb), np.asarray(yb)
            if len(Xb) != b or len(yb) != b:
                raise Violation("loader_batch_size", f"pass {pass_no} batch {j} has {len(Xb)}/{len(yb)} samples, expected {b}; {ctx}")
            if not np.array_equal(yb, y[lo:hi]) or not np.array_equal(Xb, X[lo:hi]):
                raise Violation("loader_alignment", f"pass {pass_no} batch {j} is not samples [{lo},{hi}) of both arrays "
                                                    f"(labels {yb.ravel()[:4].tolist()}); {ctx}")
        if pass_no == 2 and t in ("none", "none_default") and want_len:
            # loader[j] is the j-th batch as well
            for j in (0, want_len - 1):
                try:
                    Xj, yj = dl[j]
                except Exception as e:  # noqa: BLE001
                    raise Violation("loader_getitem", f"loader[{j}] raised {type(e).__name__}: {e}; {ctx}")
                if not np.array_equal(np.asarray(yj), y[j * b:(j + 1) * b]) or not np.array_equal(np.asarray(Xj), X[j * b:(j + 1) * b]):
                    raise Violation("loader_getitem", f"loader[{j}] is not batch {j}; {ctx}")
        if t in ("record", "new_objects", "triple", "dict", "one_object"):
            if len(calls) != want_len:
                raise Violation("loader_transform", f"transform called {len(calls)} times for {want_len} batches; {ctx}")
            for j, (ldr, Xb, yb) in enumerate(calls):
                if ldr is not dl or not np.array_equal(yb, y[j * b:(j + 1) * b]) or not np.array_equal(Xb, X[j * b:(j + 1) * b]):
                    raise Violation("loader_transform", f"transform call {j} did not receive (loader, X_batch, y_batch); {ctx}")


# ---- one-hot ----------------------------------------------------------------------------------------
@st.composite
def onehot_cases(draw):
    kind = draw(st.sampled_from(["ints", "gaps", "negative", "floats", "strings", "many", "close_floats", "big_ints"]))
    if kind == "many":
        k = draw(st.sampled_from([257, 300, 520]))
        step = draw(st.sampled_from([1, 3]))
        labels = [((j * 7) % k) * step for j in range(k)] + [draw(st.integers(0, k - 1)) * step for _ in range(5)]
        return {"kind": kind, "labels": labels, "as": draw(st.sampled_from(["list", "ndarray"]))}
    pool = {"ints": [0, 1, 2, 3], "gaps": [0, 2, 5, 9, 40], "negative": [-3, -1, 0, 2], "floats": [0.5, 1.5, -2.25, 3.0],
            "strings": ["cat", "dog", "ant", "bee"],
            # distinct labels that a narrower type would merge: doubles 1e-9 apart, integers beyond 2^24 / 2^31
            "close_floats": [0.1, 0.1 + 1e-9, 0.5, 0.5 - 1e-12, 16777216.0, 16777217.0, 1e-50, 0.0],
            "big_ints": [16777216, 16777217, 2 ** 31 - 1, 2 ** 31, 2 ** 40, 2 ** 40 + 1, -2 ** 33]}[kind]
    k = draw(st.integers(1, len(pool)))
    used = draw(st.permutations(pool))[:k]
    labels = [draw(st.sampled_from(used)) for _ in range(draw(st.integers(1, 12)))]
    return {"kind": kind, "labels": labels, "as": draw(st.sampled_from(["list", "ndarray"]))}


def check_onehot(c, rec):
    labels = c["labels"]
    yin = np.array(labels) if c["as"] == "ndarray" else list(labels)
    uniq = sorted(set(labels))
    rec.nontrivial(c["kind"] != "ints" or uniq != list(range(len(uniq))))
    rec.tag(c["kind"])
    try:
        out = np.asarray(data.one_hot_encode(yin))
    except Exception as e:  # noqa: BLE001
        raise Violation("onehot_raised", f"one_hot_encode raised {type(e).__name__}: {e}; labels={labels}")
    want = np.zeros((len(labels), len(uniq)))
    for r, l in enumerate(labels):
        want[r, uniq.index(l)] = 1
    if out.shape != want.shape or not np.array_equal(out, want):
        raise Violation("onehot_value", f"one_hot_encode({labels}) = {out.tolist()}, expected unit vectors at the index "
                                        f"among the sorted distinct labels {uniq}: {want.tolist()}")


# ---- enumerated small space ---------------------------------------------------------------------------
def enum_small(tier, shard, nshards):
    i = 0
    nmax = 12 if tier == "thorough" else 7
    for n in range(0, nmax + 1):
        for t in FRACS:
            for v in [None] + FRACS[:8]:
                i += 1
                if i % nshards == shard:
                    yield {"kind": "split", "n": n, "test": t, "val": v, "shuffle": False, "seed": 0, "default_test": False}
        for b in range(1, n + 3):
            for tr in ("none_default", "record"):
                i += 1
                if i % nshards == shard:
                    yield {"kind": "loader", "n": n, "batch": b, "transform": tr, "partial_first_pass": 0}


def check_enum(c, rec):
    if c["kind"] == "split":
        check_split(c, rec)
    else:
        check_loader(c, rec)


def subchecks():
    return [SubCheck("split", check_split, split_cases, quick=1500, thorough=10000, shards_quick=3, shards_thorough=4),
            SubCheck("loader", check_loader, loader_cases, quick=1200, thorough=8000, shards_quick=3, shards_thorough=4),
            SubCheck("one_hot", check_onehot, onehot_cases, quick=400, thorough=5000),
            SubCheck("small_grid", check_enum, None, enum=enum_small, exhaustive=True, shards_quick=4, shards_thorough=8)]
