"""C11 - forward and backward never modify operands, targets or the caller's gradient."""
import numpy as np
from hypothesis import strategies as st

from .. import gen, nnops, ops
from ..core import SubCheck, Violation
from ..env import sg

Tensor = sg.Tensor
nn = sg.nn

RULE = ("cases: every op/layer/loss of the two catalogues x operand layout (independent arrays | all operands are "
        "views into one shared buffer | equal-sized operands alias the same memory | same tensor passed twice) x "
        "backward(g) x a second graph that reuses the first root, with a bystander tensor (data+grad) watching the "
        "whole buffer.  Oracle: byte snapshots (tobytes + shape/dtype/strides) of operand data, targets, g, "
        "bystander data and gradient before/after forward and after each backward; bit-identical repetition of "
        "the forward; storage independence of clone()/detach(); documented in-place calls touch only what they "
        "document.  non-trivial: operands share memory / are reused, or the op's kernel uses in-place arithmetic "
        "on an intermediate (conv bias, batch-norm affine, cross-entropy, place_windows, pooling), or the second "
        "graph is built; distinct by hash of the case"
        " Also: exact zeros among the operands, upstream gradient of the other dtype, batch-norm running-statistic buffers snapshotted around forward and backward, operands that no longer require grad but still hold a gradient (frozen after training), the second backward seeded with the live .grad handle of the first root."
        " Round 4: the same program rebuilt 12 times at other addresses with unrelated allocations in between (one leaf, 2-6 consumers whose contributions differ by up to 11 orders of magnitude): result and leaf gradient bit-identical."
        " Round 6: an eval-mode BatchNorm that holds only one running statistic must not write it."
        " Round 7: operand values with full mantissas (x 4/3, x 7/9); raw NumPy arrays (also views) as the right operand of / * + - @.")
ASSUMPTIONS = ["Tensor(ndarray) wraps the given array without copying when the dtype matches (so views stay views)",
               "dropout/random constructors are excluded from the bit-identical-repetition assertion (they are C19's)"]

INPLACE_KERNELS = {"conv1d", "conv2d", "batch_norm", "loss_ce", "max_pool1d", "max_pool2d", "avg_pool1d", "avg_pool2d",
                   "fold", "unfold", "unfold_dim", "getitem", "loss_nll"}


def _snap(a):
    a = np.asarray(a)
    return (a.tobytes(), a.shape, a.dtype.str, a.strides)


def build_operands(case, layout):
    """returns (tensors, buffer, description).  Values come from the case; in the aliasing layouts the
    *values* of later operands are whatever the shared memory holds - only mutation is judged here."""
    dt = np.dtype(case["dtype"])
    arrs = [gen.arr(x["v"], x["shape"], dt) for x in case["xs"]]
    if case.get("generic"):
        # the grid values k/8 * 2^s are exact under most rearrangements; scaled by 4/3 and 7/9 they are not
        arrs = [(a.astype(np.float64) * (4.0 / 3.0 if i % 2 == 0 else 7.0 / 9.0)).astype(dt) for i, a in enumerate(arrs)]
    rg = case["rg"]
    if layout == "independent":
        buf = None
        datas = [a.copy() for a in arrs]
    else:
        total = sum(a.size for a in arrs) + 4
        buf = np.zeros(total, dtype=dt)
        datas = []
        off = 2
        for a in arrs:
            view = buf[off:off + a.size]
            view[:] = a.ravel()
            datas.append(view.reshape(a.shape))
            off += a.size
        if layout == "alias":
            # equal-sized operands share exactly the same memory
            for i in range(1, len(arrs)):
                for j in range(i):
                    if arrs[i].shape == arrs[j].shape:
                        datas[i] = datas[j].reshape(arrs[i].shape)   # a second view of the same bytes
                        break
    ts = [Tensor(d, requires_grad=bool(rg[i])) for i, d in enumerate(datas)]
    for t, d in zip(ts, datas):
        if t.data is not d and not np.shares_memory(t.data, d):
            return None, None       # Tensor copied the array: aliasing layouts are not expressible
    if case.get("stale"):
        # operands that do not take part in differentiation but still hold a gradient from earlier work
        # (they were trained, then frozen): that gradient belongs to the caller and must stay as it is
        for t in ts:
            if not t.requires_grad and t.is_floating_point:
                try:
                    t.requires_grad = True
                    (t * 1.5).sum().backward()
                    t.requires_grad = False
                except Exception:  # noqa: BLE001
                    pass
    return ts, buf


def make_check(op):
    def check(case, rec):
        args = case["args"]
        shp = ops.shapes_of(case)
        layout = case.get("layout", "independent")
        dt = np.dtype(case["dtype"])
        ctx = f"op={op.name} shapes={shp} args={args} dtype={case['dtype']} layout={layout}"
        ts, buf = build_operands(case, layout)
        if ts is None:
            rec.skip = "tensor_copies_input"
            return
        bystander = Tensor(np.arange(5, dtype=dt), requires_grad=True)
        (bystander * 2.0).sum().backward()
        by_before = (_snap(bystander.data), _snap(bystander.grad.data))
        before = [_snap(t.data) for t in ts]
        frozen = [(i, t, _snap(t.grad.data)) for i, t in enumerate(ts) if not t.requires_grad and t.has_grad()]
        if frozen:
            rec.tag("frozen_operand_holding_a_gradient")
        buf_before = _snap(buf) if buf is not None else None
        nnops.LAST.pop("bn_buffers", None)
        try:
            out = op.apply(ts, args)
        except Exception:  # noqa: BLE001
            rec.skip = "forward_rejected"
            return
        o = ops.pick(out, case)
        bufs = [b for b in (nnops.LAST.pop("bn_buffers", None) or ()) if b is not None]
        bufs_after_fwd = [_snap(b.data) for b in bufs]
        if bufs and not args.get("training", True):
            want = [np.array(args["rm"], dtype=dt), np.array(args["rv"], dtype=dt)]
            for b, w in zip(bufs, want):
                if _snap(b.data) != _snap(w):
                    raise Violation("buffer_modified", f"an eval-mode forward changed a running statistic; {ctx}")
        reuse = bool(args.get("use")) and len(set(args["use"])) < len(args["use"])
        rec.nontrivial(layout != "independent" or reuse or op.name in INPLACE_KERNELS or case.get("second", False))
        rec.tag(layout, case["dtype"])
        if case.get("zeros"):
            rec.tag("exact_zeros")

        def verify(stage):
            for i, t in enumerate(ts):
                if _snap(t.data) != before[i]:
                    raise Violation("operand_modified", f"operand {i} data changed by {stage}; {ctx}", region=stage.split()[0])
            if buf is not None and _snap(buf) != buf_before:
                raise Violation("operand_modified", f"shared buffer changed by {stage}; {ctx}", region=stage.split()[0])
            if (_snap(bystander.data), _snap(bystander.grad.data)) != by_before:
                raise Violation("bystander_modified", f"bystander tensor changed by {stage}; {ctx}")
            for i, t, snap in frozen:
                if not t.has_grad() or _snap(t.grad.data) != snap:
                    raise Violation("frozen_grad_modified", f"operand {i} does not require grad, yet the gradient it "
                                                            f"already held was changed by {stage}; {ctx}")

        verify("forward")
        out_snap = _snap(o.data)
        # same call on unchanged operands -> bit-identical
        if op.name != "dropout":
            o2 = ops.pick(op.apply(ts, args), case)
            if _snap(o2.data)[0] != out_snap[0]:
                raise Violation("not_repeatable", f"repeating the call on unchanged operands changed the result bits; {ctx}")
            if _snap(o.data) != out_snap:
                raise Violation("result_modified", f"the first result changed when the op was called again; {ctx}")
        if not o.requires_grad:
            return
        other = np.dtype(np.float32 if dt == np.float64 else np.float64)
        g = gen.cyc(case["g"], o.shape, other if case.get("gdtype") == "other" else dt)
        gt = Tensor(g)
        g_before = _snap(gt.data)
        try:
            o.backward(gt)
        except Exception:  # noqa: BLE001
            rec.skip = "backward_raised"
            return
        verify("backward")
        for b, snap in zip(bufs, bufs_after_fwd):
            if _snap(b.data) != snap:
                raise Violation("buffer_modified", f"backward changed a batch-norm running statistic; {ctx}")
        if _snap(gt.data) != g_before:
            raise Violation("seed_gradient_modified", f"the upstream gradient passed to backward was modified; {ctx}")
        if _snap(o.data) != out_snap:
            raise Violation("result_modified", f"the result data changed during backward; {ctx}")
        if case.get("second", False):
            # a later graph that reuses the first root as an interior node
            r2 = o * 3.0
            h = Tensor(gen.cyc(case["g"][::-1], r2.shape, dt))
            if case.get("second_seed") == "first_root_grad" and o.has_grad() and not o.is_leaf:
                # (a leaf root - eval-mode Dropout hands back its operand - is excluded: its .grad is the accumulator
                #  the second call is documented to add into, so that handle legitimately changes)
                # the caller passes on, as upstream gradient, the gradient the first root received: a live handle
                # to a buffer of a tensor that is now an interior node of the graph being differentiated
                h = o.grad
                rec.tag("second_seed_is_first_roots_grad")
            h_before = _snap(h.data)
            try:
                r2.backward(h)
            except Exception:  # noqa: BLE001
                rec.skip = "second_backward_raised"
                return
            verify("second backward")
            if _snap(gt.data) != g_before:
                raise Violation("seed_gradient_modified", f"the first call's upstream gradient was modified by a later "
                                                          f"backward through the same root; {ctx}")
            if _snap(h.data) != h_before:
                raise Violation("seed_gradient_modified", f"the second upstream gradient was modified; {ctx}")
    return check


@st.composite
def mut_case(draw, op):
    c = draw(ops.full_case(op))
    c["args"].pop("interleave", None)     # (the interleaved training call of the gradient checks updates buffers by design)
    c["layout"] = draw(st.sampled_from(["independent", "views", "views", "alias"]))
    c["second"] = draw(st.booleans())
    c["second_seed"] = draw(st.sampled_from(["fresh", "first_root_grad"]))
    c["stale"] = draw(st.booleans())
    c["generic"] = draw(st.integers(0, 3)) == 0      # values with full mantissas: (a - m) + m is not a
    if draw(st.integers(0, 2)) == 0:
        # exact zeros (and repeated values) are in every op's domain as far as mutation is concerned
        for x in c["xs"]:
            x["v"] = [0.0 if (j * 7 + len(x["v"])) % 3 == 0 else v for j, v in enumerate(x["v"])]
        c["zeros"] = True
    return c


# ---- the same computation rebuilt: bit-identical results and gradients -------------------------------------
@st.composite
def rebuild_cases(draw):
    k = draw(st.integers(2, 6))
    return {"coef": [draw(st.sampled_from([1e8, -1e8, 1.0, 3e7, -3e7, 0.5, 1e-3, 7.0])) for _ in range(k)],
            "n": draw(st.integers(1, 4)), "dtype": draw(st.sampled_from(["float32", "float32", "float64"])),
            "junk": [draw(st.integers(0, 300)) for _ in range(6)], "how": draw(st.sampled_from(["sum_chain", "stack", "nested"]))}


def check_rebuild(c, rec):
    """One leaf feeding several consumers whose contributions differ by many orders of magnitude: the accumulated
    gradient depends on the ORDER of accumulation in the last bits.  Rebuilding the identical program (fresh
    objects at other addresses, unrelated allocations in between) must reproduce the result bit for bit."""
    dt = np.dtype(c["dtype"])
    keep = []

    def build():
        x = Tensor(np.full(c["n"], 1.0, dtype=dt) + np.arange(c["n"], dtype=dt) / 8, requires_grad=True)
        parts = [x * float(a) for a in c["coef"]]
        if c["how"] == "stack":
            out = sg.stack(parts, 0).sum(0)
        elif c["how"] == "nested":
            out = parts[0]
            for q in parts[1:]:
                out = out + q * 1.0
        else:
            out = parts[0]
            for q in parts[1:]:
                out = out + q
        out.backward(Tensor(np.ones(out.shape, dtype=dt)))
        return out.data.tobytes(), x.grad.data.tobytes()

    first = build()
    rec.nontrivial(len({abs(a) for a in c["coef"]}) >= 2)
    for r in range(12):
        keep.append([object() for _ in range(c["junk"][r % len(c["junk"])])])     # shifts later allocations
        if r % 3 == 2:
            keep.pop(0)
        again = build()
        if again[0] != first[0]:
            raise Violation("not_repeatable", f"rebuilding the same forward computation changed the result bits (rebuild {r}); {c}",
                            region="rebuild")
        if again[1] != first[1]:
            raise Violation("not_repeatable", f"rebuilding the same program changed the bits of the leaf's gradient (rebuild {r}): "
                                              f"{np.frombuffer(first[1], dtype=dt).tolist()} vs {np.frombuffer(again[1], dtype=dt).tolist()}; {c}",
                            region="rebuild_grad")


# ---- raw NumPy arrays as the non-Tensor operand of an operator ------------------------------------------------------
@st.composite
def ndarray_operand_cases(draw):
    shp = draw(gen.shapes(0, 3, 30))
    return {"shape": shp, "v": draw(gen.grid_away_from_zero(shp)), "w": draw(gen.grid_away_from_zero(shp)), "dtype": draw(gen.DTYPES),
            "same_dtype": draw(st.booleans()), "op": draw(st.sampled_from(["div", "div", "mul", "add", "sub", "rdiv", "matmul"])),
            "view": draw(st.booleans()), "rg": draw(st.booleans())}


def check_ndarray_operand(c, rec):
    dt = np.dtype(c["dtype"])
    other = dt if c["same_dtype"] else np.dtype(np.float32 if dt == np.float64 else np.float64)
    t = Tensor(gen.arr(c["v"], c["shape"], dt), requires_grad=c["rg"])
    base = np.zeros(int(np.prod(c["shape"])) + 2, dtype=other)
    w = gen.arr(c["w"], c["shape"], other) * (4.0 / 3.0)
    if c["view"]:
        base[1:1 + w.size] = w.ravel()
        arr = base[1:1 + w.size].reshape(c["shape"])
    else:
        arr = w.astype(other)
    rec.nontrivial(c["same_dtype"])
    rec.tag(c["op"])
    snap, bsnap = _snap(arr), _snap(base)
    tsnap = _snap(t.data)
    outs = []
    for _ in range(2):
        try:
            if c["op"] == "div":
                out = t / arr
            elif c["op"] == "mul":
                out = t * arr
            elif c["op"] == "add":
                out = t + arr
            elif c["op"] == "sub":
                out = t - arr
            elif c["op"] == "rdiv":
                out = (arr.tolist() if True else arr) / t
            else:
                if len(c["shape"]) != 2 or c["shape"][0] != c["shape"][1]:
                    rec.skip = "not_square"
                    return
                out = t @ arr
        except Exception:  # noqa: BLE001
            rec.skip = "rejected"
            return
        outs.append(np.asarray(out.data).tobytes())
        if _snap(arr) != snap or _snap(base) != bsnap:
            raise Violation("operand_modified", f"`tensor {c['op']} ndarray` changed the caller's NumPy array; {c}", region="ndarray_operand")
        if _snap(t.data) != tsnap:
            raise Violation("operand_modified", f"`tensor {c['op']} ndarray` changed the tensor; {c}", region="ndarray_operand")
    if outs[0] != outs[1]:
        raise Violation("not_repeatable", f"repeating `tensor {c['op']} ndarray` gave other bits; {c}", region="ndarray_operand")
    if c["rg"]:
        out.backward(Tensor(np.ones(out.shape, dtype=out.dtype)))
        if _snap(arr) != snap or _snap(base) != bsnap:
            raise Violation("operand_modified", f"backward of `tensor {c['op']} ndarray` changed the caller's NumPy array; {c}", region="ndarray_operand")


# ---- clone / detach -----------------------------------------------------------------------------
@st.composite
def copy_cases(draw):
    shp = draw(gen.shapes(0, 4, 60))
    return {"shape": shp, "v": draw(gen.grid(shp)), "dtype": draw(gen.DTYPES), "rg": draw(st.booleans()),
            "which": draw(st.sampled_from(["clone", "detach", "clone_fn"])), "view": draw(st.booleans())}


def check_copy(c, rec):
    dt = np.dtype(c["dtype"])
    base = np.zeros(int(np.prod(c["shape"])) + 3, dtype=dt)
    if c["view"]:
        data = base[1:1 + int(np.prod(c["shape"]))]
        data[:] = np.asarray(c["v"], dtype=dt)
        data = data.reshape(c["shape"])
    else:
        data = gen.arr(c["v"], c["shape"], dt)
    t = Tensor(data, requires_grad=c["rg"])
    rec.nontrivial(c["view"] or c["rg"])
    rec.tag(c["which"])
    before = _snap(t.data)
    cp = {"clone": lambda: t.clone(), "detach": lambda: t.detach(), "clone_fn": lambda: sg.clone(t)}[c["which"]]()
    if not np.array_equal(cp.data, t.data) or cp.shape != t.shape or cp.dtype != t.dtype:
        raise Violation("copy_value", f"{c['which']}() does not equal its source")
    if np.shares_memory(cp.data, t.data) or (c["view"] and np.shares_memory(cp.data, base)):
        raise Violation("copy_shares_storage", f"{c['which']}() shares memory with its source; {c['shape']}")
    if cp.data.size:
        cp.data[...] = cp.data + 1.0
    if _snap(t.data) != before:
        raise Violation("copy_shares_storage", f"writing into the result of {c['which']}() changed the source")
    if c["which"] == "detach" and (cp.requires_grad or cp.grad_fn is not None):
        raise Violation("detach_tracks", "detach() result requires grad / has a grad_fn")


# ---- documented in-place calls touch only what they document -------------------------------------
@st.composite
def inplace_cases(draw):
    return {"which": draw(st.sampled_from(["sgd", "adam", "adamw", "init", "bn_train", "zero_grad", "tensor_zero", "bn_eval_one_buffer", "bn_eval_one_buffer"])),
            "seed": draw(st.integers(0, 2 ** 31 - 1)), "dtype": draw(gen.DTYPES),
            "n": draw(st.integers(1, 4)), "m": draw(st.integers(1, 4))}


def check_inplace(c, rec):
    dt = np.dtype(c["dtype"])
    rng = np.random.RandomState(c["seed"])
    rec.nontrivial(True)
    rec.tag(c["which"])
    other = nn.Parameter(Tensor(rng.randn(c["n"], c["m"]).astype(dt), requires_grad=True))
    p = nn.Parameter(Tensor(rng.randn(c["n"], c["m"]).astype(dt), requires_grad=True))
    x = Tensor(rng.randn(3, c["m"]).astype(dt))
    for q in (p, other):
        (q * 1.5).sum().backward()
    o_before = (_snap(other.data), _snap(other.grad.data))
    x_before = _snap(x.data)
    pg_before = _snap(p.grad.data)
    w = c["which"]
    if w in ("sgd", "adam", "adamw"):
        opt = {"sgd": lambda: sg.optim.SGD([p], lr=0.1, momentum=0.9, weight_decay=0.1),
               "adam": lambda: sg.optim.Adam([p], lr=0.1, weight_decay=0.1),
               "adamw": lambda: sg.optim.AdamW([p], lr=0.1, weight_decay=0.1)}[w]()
        opt.step()
        opt.step()
        if _snap(p.grad.data) != pg_before:
            raise Violation("inplace_scope", f"{w}.step() changed the parameter's gradient")
    elif w == "init":
        t = Tensor(np.zeros((c["n"], c["m"]), dtype=dt))
        sg.manual_seed(c["seed"])
        nn.init.xavier_uniform_(t)
        nn.init.constant_(t, 2.0)
    elif w == "bn_train":
        bn = nn.BatchNorm1d(c["m"], dtype=dt.type)
        xb = Tensor(rng.randn(4, c["m"]).astype(dt), requires_grad=True)
        xb_before = _snap(xb.data)
        w_before = (_snap(bn.weight.data), _snap(bn.bias.data))
        y = bn(xb)
        y.backward(Tensor(np.ones(y.shape, dtype=dt)))
        if _snap(xb.data) != xb_before:
            raise Violation("operand_modified", "BatchNorm1d training forward/backward changed its input", region="bn")
        if (_snap(bn.weight.data), _snap(bn.bias.data)) != w_before:
            raise Violation("inplace_scope", "BatchNorm1d training forward changed its affine parameters")
    elif w == "bn_eval_one_buffer":
        # an eval-mode layer that holds only ONE of its two running statistics (the other was set to None): whatever it
        # computes, an eval-mode forward does not write statistics
        bn = nn.BatchNorm1d(c["m"], dtype=dt.type)
        bn(Tensor(rng.randn(4, c["m"]).astype(dt)))
        bn.eval()
        if c["seed"] % 2:
            bn.running_var = None
            keep = bn.running_mean
        else:
            bn.running_mean = None
            keep = bn.running_var
        snap = _snap(keep.data)
        try:
            bn(Tensor(rng.randn(3, c["m"]).astype(dt)))
            bn(Tensor(rng.randn(5, c["m"]).astype(dt)))
        except Exception:  # noqa: BLE001   (refusing such a layer is fine)
            rec.tag("one_buffer_refused")
        cur = bn.running_mean if c["seed"] % 2 else bn.running_var
        if cur is None or _snap(cur.data) != snap:
            raise Violation("buffer_modified", f"an eval-mode BatchNorm forward changed the running statistic it still holds "
                                               f"(the other one is None); dtype={dt}", region="one_buffer")
    elif w == "zero_grad":
        m = nn.Linear(c["m"], c["n"])
        wd = (_snap(m.weight.data), _snap(m.bias.data))
        m(x).sum().backward()
        m.zero_grad()
        if (_snap(m.weight.data), _snap(m.bias.data)) != wd:
            raise Violation("inplace_scope", "Module.zero_grad changed parameter data")
    elif w == "tensor_zero":
        pd = _snap(p.data)
        p.zero_()
        if _snap(p.data) != pd:
            raise Violation("inplace_scope", "Tensor.zero_() changed the tensor's data (it documents zeroing the gradient)")
    if (_snap(other.data), _snap(other.grad.data)) != o_before:
        raise Violation("bystander_modified", f"{w}: a parameter that was not involved changed")
    if _snap(x.data) != x_before:
        raise Violation("bystander_modified", f"{w}: an unrelated tensor changed")


def subchecks():
    subs = []
    heavy = {"conv1d", "conv2d", "max_pool2d", "avg_pool2d", "fold", "unfold", "batch_norm"}
    for op in ops.OPS:
        subs.append(SubCheck("t_" + op.name, make_check(op), (lambda op=op: mut_case(op)),
                             quick=200, thorough=3000, shards_quick=1, shards_thorough=2))
    for op in nnops.OPS + [nnops.DROPOUT]:
        subs.append(SubCheck("nn_" + op.name, make_check(op), (lambda op=op: mut_case(op)),
                             quick=150 if op.name in heavy else 200, thorough=2000, shards_quick=1, shards_thorough=2))
    subs.append(SubCheck("ndarray_operands", check_ndarray_operand, ndarray_operand_cases, quick=300, thorough=3000))
    subs.append(SubCheck("rebuild_repeat", check_rebuild, rebuild_cases, quick=150, thorough=2000))
    subs.append(SubCheck("clone_detach", check_copy, copy_cases, quick=400, thorough=5000))
    subs.append(SubCheck("documented_inplace", check_inplace, inplace_cases, quick=200, thorough=2000))
    return subs
