"""Generic gradient check used by C01 and C02: backward(g) must complete and leave in every operand
that requires grad the finite-difference VJP of the function the forward pass computed."""
import numpy as np

from . import fd, gen, ops
from .core import Violation
from .env import sg

Tensor = sg.Tensor


def check_grad(op, case, rec, f64_tol=1e-5, f32_tol=2e-3):
    args = case["args"]
    shp = ops.shapes_of(case)
    dt = np.dtype(case["dtype"])
    rg = case["rg"]
    rec.tag(*op.tags(args, shp))
    rec.tag(case["dtype"])
    ctx = f"op={op.name} shapes={shp} args={args} dtype={case['dtype']} requires_grad={rg}"
    ts = ops.leaves(case, rg=rg)
    try:
        out = op.apply(ts, args)
    except Exception:  # noqa: BLE001 - acceptance is C05/C06's business
        rec.skip = "forward_rejected"
        return
    o = ops.pick(out, case)
    if not o.requires_grad:
        raise Violation("result_not_differentiable",
                        f"an operand requires grad but the result does not (backward cannot run); {ctx}")
    g = gen.cyc(case["g"], o.shape, dt)
    gconst = bool(g.size <= 1 or np.all(g == g.ravel()[0]))
    if gconst:
        rec.tag("g_constant")
    rec.nontrivial(o.data.size >= 2 and not gconst and op.nt(args, shp))
    if case.get("refused_first") and o.data.size >= 1:
        # a backward call the library must refuse (upstream gradient of the wrong shape) comes first; the valid call
        # that follows must be unaffected by the refused one
        try:
            o.backward(Tensor(np.ones(tuple(o.shape) + (2,), dtype=dt)))
        except Exception:  # noqa: BLE001
            rec.tag("refused_call_first")
    passes = 2 if case.get("twice") else 1
    first = None
    try:
        for k in range(passes):
            o.backward(Tensor(g.copy()))
            if k == 0 and passes == 2:
                first = [None if t.grad is None else np.array(t.grad.data, dtype=np.float64) for t in ts]
    except Exception as e:  # noqa: BLE001
        raise Violation("backward_raised", f"forward accepted but backward(g) raised {type(e).__name__}: {e}; {ctx}")
    if passes == 2:
        rec.tag("backward_twice")
        ctx += " (backward called twice on the same graph: leaves accumulate)"
        # metamorphic, independent of finite differences: the second call differentiates the same recorded function
        # with the same g, so it must ADD exactly what the first one left (to rounding of one addition)
        eps = 8 * float(np.finfo(dt).eps)
        reused = bool(args.get("use")) and len(set(args["use"])) < len(args["use"])
        for i, t in enumerate(ts):
            if first[i] is None or t.grad is None or reused:
                # (an operand used twice by the op receives two pieces per call; (p1 + p2) + p1 + p2 is not 2(p1 + p2) in
                #  floating point when the pieces cancel, as in x / x)
                continue
            now = np.asarray(t.grad.data, dtype=np.float64)
            if now.shape != first[i].shape or np.any(np.abs(now - 2.0 * first[i]) > eps * np.maximum(np.abs(2.0 * first[i]), 1e-300) + 1e-300):
                j = int(np.argmax(np.abs(now - 2.0 * first[i]))) if now.shape == first[i].shape and now.size else 0
                raise Violation("second_backward_differs",
                                f"operand {i}: after a second backward(g) through the same graph the accumulated gradient is not "
                                f"twice the first: first={first[i].ravel()[j] if first[i].size else None!r} "
                                f"now={now.ravel()[j] if now.size else None!r}; {ctx}")

    def f(arrs):
        with sg.no_grad():
            tt = [Tensor(a) for a in arrs]
            return ops.pick(op.apply(tt, args), case).data

    which = [i for i, r in enumerate(rg) if r]
    try:
        sc = float(case.get("scale", 1.0))
        hs = max(sc, op.fd_hscale(args)) if op.fd_hscale is not None else sc
        want = fd.fd_vjp(f, ops.arrays(case), g, which, hscale=hs)
    except fd.FwdDtype:
        rec.skip = "fwd_not_float64"
        return
    for i in range(len(ts)):
        gt = ts[i].grad
        if i not in which:
            if gt is not None:
                raise Violation("grad_on_nonrequiring", f"operand {i} does not require grad but has .grad; {ctx}")
            continue
        if gt is None:
            raise Violation("grad_missing", f"operand {i} requires grad but .grad is None after backward; {ctx}")
        if tuple(gt.shape) != tuple(ts[i].shape):
            raise Violation("grad_shape", f"operand {i}: grad shape {tuple(gt.shape)} != operand shape "
                                          f"{tuple(ts[i].shape)}; {ctx}")
        # the comparison floor follows the case's magnitude: |d<g,f>/dx| ~ |g||f|/|x|
        # (only for the extreme scales, which are generated for cancellation-free ops only)
        floor = 1.0 if 1e-3 < sc < 1e3 else min(1.0, float(np.abs(want[i]).max()) or 1.0)
        ok, err, scale = fd.close(gt.data, passes * want[i], dt, f64_tol, f32_tol, floor=floor)
        if not ok:
            raise Violation("grad_value",
                            f"operand {i}: max |grad - finite-difference VJP| = {err:.3e} (scale {scale:.3g}); "
                            f"grad={np.asarray(gt.data).ravel()[:6].tolist()} fd={want[i].ravel()[:6].tolist()} "
                            f"g={g.ravel()[:6].tolist()}; {ctx}")


    # the graph grows above the old root; the old root's own (live) .grad handle is the new upstream gradient
    if case.get("extend") and not o.is_leaf and o.grad is not None:
        before = [None if t.grad is None else np.array(t.grad.data, dtype=np.float64) for t in ts]
        rec.tag("extended_above_root")
        try:
            (o * 3.0).backward(o.grad)
        except Exception as e:  # noqa: BLE001
            raise Violation("backward_raised", f"(result * 3).backward(result.grad) raised {type(e).__name__}: {e}; {ctx}")
        fac = (passes + 3.0) / passes
        for i, t in enumerate(ts):
            if before[i] is None:
                continue
            now = np.asarray(t.grad.data, dtype=np.float64)
            # (gradients formed by cancellation - x/x, batch-norm - carry rounding noise of the size of their TERMS,
            #  so the comparison is relative to max(1, |g|, |gradient|), as in the finite-difference comparison)
            tol = (1e-9 if dt == np.float64 else 1e-4) * max(1.0, float(np.abs(g).max(initial=0.0)),
                                                              float(np.abs(before[i]).max(initial=0.0)) * fac)
            if now.shape != before[i].shape or np.abs(now - fac * before[i]).max(initial=0.0) > tol:
                raise Violation("grad_value", f"operand {i}: after (result*3).backward(result.grad) the accumulated gradient is not "
                                              f"{fac:g} x the previous one: {now.ravel()[:4].tolist()} vs {(fac * before[i]).ravel()[:4].tolist()}; {ctx}",
                                region="extended")


def make_check(op, **kw):
    def check(case, rec):
        check_grad(op, case, rec, **kw)
    return check
