"""Core of the framework: sub-check description, the Hypothesis driver loop with failure capture,
known-finding handling, replay files.  Everything here is property-agnostic."""
import hashlib
import json
import os
import re
import time
import traceback
from collections import Counter
from dataclasses import dataclass, field
from typing import Callable, Optional

import numpy as np


class Violation(Exception):
    """Raised by a check when the code under test contradicts the property."""

    def __init__(self, kind, detail="", region=None):
        super().__init__(f"{kind}: {detail}")
        self.kind = kind
        self.detail = str(detail)
        self.region = region


class HarnessError(Exception):
    """Something is wrong with the machinery (oracle self-disagreement, bad case) - exit 2."""


class Rec:
    """Per-case recorder handed to check functions."""
    __slots__ = ("nt", "tags", "skip")

    def __init__(self):
        self.nt = False
        self.tags = []
        self.skip = None

    def tag(self, *names):
        self.tags.extend(names)

    def nontrivial(self, flag=True):
        self.nt = bool(flag)


@dataclass
class SubCheck:
    name: str
    check: Callable                       # check(case: dict, rec: Rec) -> None, raises Violation
    strategy: Optional[Callable] = None   # () -> hypothesis strategy producing a JSON-able case
    quick: int = 100                      # examples in the quick tier (per shard)
    thorough: int = 2000                  # examples in the thorough tier (per shard)
    shards_quick: int = 1
    shards_thorough: int = 4
    enum: Optional[Callable] = None       # (tier, shard, nshards) -> iterable of cases (exhaustive)
    machine: Optional[Callable] = None    # (run_case) -> hypothesis RuleBasedStateMachine class (stateful generation)
    steps: int = 12                       # stateful_step_count for `machine` sub-checks
    exhaustive: bool = False
    max_shrink_s: float = 60.0


def jsonable(o):
    if isinstance(o, dict):
        return {str(k): jsonable(v) for k, v in o.items()}
    if isinstance(o, (list, tuple)):
        return [jsonable(v) for v in o]
    if isinstance(o, np.ndarray):
        return jsonable(o.tolist())
    if isinstance(o, (np.integer,)):
        return int(o)
    if isinstance(o, (np.floating,)):
        return float(o)
    if isinstance(o, (np.bool_,)):
        return bool(o)
    if isinstance(o, float):
        if o != o:
            return "nan"
        if o in (float("inf"), float("-inf")):
            return "inf" if o > 0 else "-inf"
        return o
    if isinstance(o, (int, str, bool)) or o is None:
        return o
    return repr(o)


def case_hash(case):
    s = json.dumps(jsonable(case), sort_keys=True, separators=(",", ":"))
    return int.from_bytes(hashlib.blake2b(s.encode(), digest_size=8).digest(), "big")


def derive_seed(*parts):
    s = "|".join(str(p) for p in parts)
    return int.from_bytes(hashlib.blake2b(s.encode(), digest_size=8).digest(), "big") % (2 ** 63)


def sanitize(sig):
    return re.sub(r"[^A-Za-z0-9_.=-]+", "_", sig)[:150]


# ----------------------------------------------------------------------------------------------
# known findings
# ----------------------------------------------------------------------------------------------

def load_known_findings(verif_dir):
    """Returns {property_id: [{sig, replay, text}]} for 'finding:' lines.  'fixed:' lines suppress
    nothing and are ignored here."""
    path = os.path.join(verif_dir, "KNOWN_FINDINGS.txt")
    out = {}
    if not os.path.exists(path):
        return out
    for line in open(path):
        line = line.strip()
        if not line.startswith("finding:"):
            continue
        m = re.match(r"finding:\s+property=(\S+)\s+sig=(\S+)\s+replay=(\S+)\s+::\s*(.*)", line)
        if not m:
            raise HarnessError(f"unparsable KNOWN_FINDINGS line: {line}")
        out.setdefault(m.group(1), []).append(
            {"sig": m.group(2), "replay": m.group(3), "text": m.group(4)})
    return out


# ----------------------------------------------------------------------------------------------
# running one (sub-check, shard)
# ----------------------------------------------------------------------------------------------

def signature(sub_name, v):
    sig = f"{sub_name}/{v.kind}"
    if v.region:
        sig += f"/{v.region}"
    return sig


def run_subcheck(prop_id, sub, tier, seed, shard, nshards, known_sigs, time_budget=None):
    """Runs one shard of one sub-check.  Returns a plain dict (picklable)."""
    from . import env
    t0 = time.time()
    res = {
        "sub": sub.name, "shard": shard, "evaluations": 0, "nontrivial_hashes": set(),
        "tags": Counter(), "skips": Counter(), "samples": [], "violations": [],
        "known_hits": Counter(), "error": None, "exhaustive": False, "wall_s": 0.0,
    }
    n = sub.quick if tier == "quick" else sub.thorough
    if os.environ.get("VERIF_QUICK_CAP") and tier == "quick":
        n = min(n, int(os.environ["VERIF_QUICK_CAP"]))       # (tools/libcov.py: a cheap in-process pass)
    found_sigs = {}   # sig -> failure dict (violations already captured in this run)
    state = {"last_fail": None}

    def one(case):
        rec = Rec()
        res["evaluations"] += 1
        try:
            env.reset_global_modes()
            sub.check(case, rec)
        except Violation as v:
            sig = signature(sub.name, v)
            if sig in known_sigs:
                res["known_hits"][sig] += 1
                return
            if sig in found_sigs:
                return          # already captured (and shrunk) in an earlier round
            state["last_fail"] = {"sig": sig, "kind": v.kind, "detail": v.detail[:2000],
                                  "case": jsonable(case)}
            raise
        finally:
            if rec.skip:
                res["skips"][rec.skip] += 1
            for t in rec.tags:
                res["tags"][t] += 1
            if rec.nt:
                res["nontrivial_hashes"].add(case_hash(case))
                if len(res["samples"]) < 3 and (not res["samples"] or res["evaluations"] % 17 == 0):
                    res["samples"].append(jsonable(case))

    try:
        if sub.enum is not None:
            complete = True
            for case in sub.enum(tier, shard, nshards):
                try:
                    one(case)
                except Violation:
                    f = state["last_fail"]
                    found_sigs[f["sig"]] = f
                if time_budget and time.time() - t0 > time_budget:
                    complete = False
                    break
            res["exhaustive"] = bool(sub.exhaustive and complete and tier == "thorough")
        if sub.machine is not None and n > 0:
            import hypothesis
            from hypothesis import HealthCheck, Phase, settings
            from hypothesis.stateful import run_state_machine_as_test

            for rnd in range(3):
                hseed = derive_seed(seed, prop_id, sub.name, shard, "machine", rnd)
                M = hypothesis.seed(hseed)(sub.machine(one))
                try:
                    run_state_machine_as_test(M, settings=settings(
                        max_examples=n, stateful_step_count=sub.steps, database=None, deadline=None, derandomize=False,
                        report_multiple_bugs=False, print_blob=False,
                        suppress_health_check=[HealthCheck.too_slow, HealthCheck.data_too_large, HealthCheck.large_base_example,
                                               HealthCheck.filter_too_much],
                        phases=(Phase.generate, Phase.shrink)))
                    break
                except Violation:
                    f = state["last_fail"]
                    found_sigs[f["sig"]] = f
                except Exception as e:  # noqa: BLE001
                    if not _flaky_violation(e, state, found_sigs):
                        raise
        if sub.strategy is not None and n > 0:
            import hypothesis
            from hypothesis import HealthCheck, Phase, given, settings

            strat = sub.strategy()
            for rnd in range(4):
                hseed = derive_seed(seed, prop_id, sub.name, shard, rnd)

                @hypothesis.seed(hseed)
                @settings(max_examples=n, database=None, deadline=None, derandomize=False,
                          report_multiple_bugs=False, print_blob=False,
                          suppress_health_check=[HealthCheck.too_slow, HealthCheck.data_too_large,
                                                 HealthCheck.large_base_example],
                          phases=(Phase.generate, Phase.shrink))
                @given(strat)
                def test(case):
                    one(case)

                try:
                    test()
                    break
                except Violation:
                    f = state["last_fail"]
                    found_sigs[f["sig"]] = f
                    # next round: this signature is now skipped, search continues behind it
                except Exception as e:  # noqa: BLE001
                    if not _flaky_violation(e, state, found_sigs):
                        raise
    except Exception as e:  # noqa: BLE001  -- harness problem, never a verdict
        res["error"] = f"{type(e).__name__}: {e}\n" + traceback.format_exc()[-3000:]
    res["violations"] = list(found_sigs.values())
    res["wall_s"] = time.time() - t0
    return res


def _flaky_violation(exc, state, found_sigs):
    """Hypothesis re-executes a failing case while shrinking; when the oracle's verdict on the SAME case changes between
    executions it raises FlakyFailure.  The oracle did observe a violation (state['last_fail']): the code under test
    answered differently for identical input, which for these properties is itself a defect, not a harness problem.
    The violation is kept un-shrunk and marked; its replay may pass."""
    import hypothesis.errors as he
    flaky = tuple(c for c in (getattr(he, "FlakyFailure", None), getattr(he, "Flaky", None)) if c is not None)
    if not isinstance(exc, flaky) or isinstance(exc, getattr(he, "FlakyStrategyDefinition", ())):
        return False
    f = state.get("last_fail")
    if f is None:
        return False
    f = dict(f, detail="[verdict not reproducible on immediate re-execution of the same case: the code under test "
                       "is not a function of its inputs] " + f["detail"])
    found_sigs[f["sig"]] = f
    return True


def write_replay(verif_dir, prop_id, sub_name, failure, subdir="out/replays"):
    d = os.path.join(verif_dir, subdir, prop_id)
    os.makedirs(d, exist_ok=True)
    path = os.path.join(d, sanitize(failure["sig"]) + ".json")
    with open(path, "w") as fh:
        json.dump({"property": prop_id, "subcheck": sub_name, "sig": failure["sig"],
                   "kind": failure["kind"], "detail": failure["detail"],
                   "case": failure["case"]}, fh, indent=1, sort_keys=True)
    return path


def command_machine(init_strategy, command_strategy, assemble):
    """Factory for `SubCheck.machine`: a RuleBasedStateMachine that draws an initial configuration, then one command
    per step, and after every step runs the property's interpreter+model on the history so far (`assemble(init, cmds)`
    builds the same JSON case the list-based sub-check uses, so a failure replays through the ordinary check)."""
    def factory(run_case):
        from hypothesis.stateful import RuleBasedStateMachine, initialize, rule

        class CommandMachine(RuleBasedStateMachine):
            def __init__(self):
                super().__init__()
                self.init = None
                self.cmds = []

            @initialize(i=init_strategy)
            def start(self, i):
                self.init = i

            @rule(c=command_strategy)
            def step(self, c):
                if self.init is None:
                    return
                self.cmds.append(c)
                run_case(assemble(self.init, list(self.cmds)))

        return CommandMachine
    return factory
