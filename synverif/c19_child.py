"""Child process of C19: reads {"prog", "seed", "junk", "imports"} as JSON from stdin, perturbs the allocation
layout (junk objects, unrelated imports) BEFORE importing synapgrad, runs the program, prints the digest."""
import json
import sys


def main():
    req = json.load(sys.stdin)
    junk = []
    for i in range(int(req.get("junk", 0))):
        junk.append([object() for _ in range(i % 7)])
        junk.append({str(i): i, "k%d" % (i * 31): [i]})
        junk.append("s" * (i % 50))
    for name in req.get("imports", []):
        try:
            __import__(name)
        except Exception:  # noqa: BLE001
            pass
    if req.get("drop_junk"):
        del junk[::2]
    from synverif import env  # noqa: F401
    from synverif.c19_prog import run_program
    d, fixed = run_program(req["prog"], req["seed"], poison=float(req.get("junk", 0)) + 0.5)
    print("DIGEST", d)
    return 0


if __name__ == "__main__":
    sys.exit(main())
