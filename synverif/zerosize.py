"""Operands with a zero-length dimension (empty batch, empty slice, k = 0 in a matrix product): shared by C01
(backward completes, gradients have the operand's shape and the only possible value) and C05 (forward = NumPy)."""
import numpy as np
from hypothesis import strategies as st

from . import gen
from .env import sg

Tensor = sg.Tensor
KINDS = ["binary", "binary", "scalar", "neg", "exp", "clone", "matmul", "matmul", "addmm", "sum", "sum_all", "concat", "stack", "reshape",
         "transpose", "empty_slice", "unsqueeze", "flatten"]


@st.composite
def cases(draw):
    kind = draw(st.sampled_from(KINDS))
    rank = draw(st.integers(1, 3))
    shp = [draw(st.integers(1, 3)) for _ in range(rank)]
    z = draw(st.integers(0, rank - 1))
    shp[z] = 0
    c = {"kind": kind, "shape": shp, "zero_at": z, "dtype": draw(gen.DTYPES), "g": draw(gen.upstream()),
         "v": draw(gen.grid([12], 1, 24)), "op": draw(st.sampled_from(["add", "sub", "mul", "div"])),
         "ones": [draw(st.booleans()) for _ in range(3)], "drop": draw(st.integers(0, rank)),
         "n": draw(st.integers(0, 3)), "k": draw(st.integers(0, 3)), "m": draw(st.integers(0, 3)),
         "batch": draw(st.sampled_from([None, 0, 2])), "keep": draw(st.booleans()), "dim": draw(st.integers(0, rank - 1)),
         "rg": [draw(st.booleans()) for _ in range(3)]}
    if kind in ("matmul", "addmm") and 0 not in (c["n"], c["k"], c["m"]) and (c["batch"] != 0 or kind == "addmm"):
        c[draw(st.sampled_from(["n", "k", "m"]))] = 0
    if not any(c["rg"]):
        c["rg"][0] = True
    return c


def run(c):
    """returns (out Tensor, NumPy reference, [operand tensors], [expected gradient arrays or None]) - raises whatever
    the library raises"""
    dt = np.dtype(c["dtype"])
    shp = list(c["shape"])
    kind = c["kind"]

    def mk(shape, i):
        return Tensor(gen.cyc(c["v"], shape, dt) + i, requires_grad=bool(c["rg"][i % 3]))

    if kind == "binary":
        # second operand: broadcast partner (size-1 dims / dropped prefix), first has the zero-length dim - or swapped
        other = list(shp[min(c["drop"], len(shp) - 1) if c["drop"] < len(shp) else 0:])
        for i in range(len(other)):
            if c["ones"][i % 3]:
                other[i] = 1
        a, b = mk(shp, 0), mk(other, 1)
        if c["ones"][0] and c["ones"][1]:
            a, b = b, a
        fn = {"add": lambda x, y: x + y, "sub": lambda x, y: x - y, "mul": lambda x, y: x * y, "div": lambda x, y: x / y}[c["op"]]
        out, ref, ops_ = fn(a, b), fn(a.data, b.data), [a, b]
    elif kind == "scalar":
        a = mk(shp, 0)
        out, ref, ops_ = a * 2.5 - 1.0, a.data * 2.5 - 1.0, [a]
    elif kind in ("neg", "exp", "clone"):
        a = mk(shp, 0)
        out = {"neg": lambda: -a, "exp": lambda: sg.exp(a), "clone": lambda: a.clone()}[kind]()
        ref = {"neg": lambda: -a.data, "exp": lambda: np.exp(a.data), "clone": lambda: a.data.copy()}[kind]()
        ops_ = [a]
    elif kind in ("matmul", "addmm"):
        bt = [] if c["batch"] is None else [c["batch"]]
        a, b = mk(bt + [c["n"], c["k"]], 0), mk(([] if kind == "addmm" else bt) + [c["k"], c["m"]], 1)
        if kind == "addmm":
            a = mk([c["n"], c["k"]], 0)
            bias = mk([c["m"]] if c["keep"] else [c["n"], c["m"]], 2)
            out, ref, ops_ = sg.addmm(bias, a, b), bias.data + a.data @ b.data, [bias, a, b]
        else:
            out, ref, ops_ = a @ b, a.data @ b.data, [a, b]
    elif kind in ("sum", "sum_all"):
        a = mk(shp, 0)
        if kind == "sum":
            out, ref = a.sum(dim=c["dim"], keepdims=c["keep"]), a.data.sum(axis=c["dim"], keepdims=c["keep"])
        else:
            out, ref = a.sum(), a.data.sum()
        ops_ = [a]
    elif kind in ("concat", "stack"):
        a = mk(shp, 0)
        full = list(shp)
        if kind == "concat":
            full[c["zero_at"]] = 2
            b = mk(full, 1)
            out, ref = sg.concat([a, b, a], c["zero_at"]), np.concatenate([a.data, b.data, a.data], axis=c["zero_at"])
            ops_ = [a, b]
        else:
            b = mk(shp, 1)
            out, ref, ops_ = sg.stack([a, b], c["dim"]), np.stack([a.data, b.data], axis=c["dim"]), [a, b]
    elif kind == "reshape":
        a = mk(shp, 0)
        new = shp[::-1] + [2]
        out, ref, ops_ = a.reshape(tuple(new)), a.data.reshape(new), [a]
    elif kind == "transpose":
        a = mk(shp, 0)
        out, ref, ops_ = a.transpose(0, -1), np.swapaxes(a.data, 0, -1), [a]
    elif kind == "empty_slice":
        full = list(shp)
        full[c["zero_at"]] = 3
        a = mk(full, 0)
        key = tuple([slice(None)] * c["zero_at"] + [slice(2, 2) if c["keep"] else slice(3, None)])
        out, ref, ops_ = a[key], a.data[key], [a]
    elif kind == "unsqueeze":
        a = mk(shp, 0)
        out, ref, ops_ = a.unsqueeze(c["dim"]), np.expand_dims(a.data, c["dim"]), [a]
    else:
        a = mk(shp, 0)
        out, ref, ops_ = a.flatten(), a.data.reshape(-1), [a]
    return out, np.asarray(ref), ops_


def expected_grads(c, out, ops_, g):
    """every operand's gradient is all zeros (an empty output contributes nothing; an empty operand has nothing to
    receive) - except the non-empty piece of a concatenation and a bias broadcast into a non-empty product"""
    exp = []
    for i, t in enumerate(ops_):
        if not t.requires_grad:
            exp.append(None)
            continue
        e = np.zeros(t.shape, dtype=np.float64)
        if c["kind"] == "concat" and i == 1:
            e = np.asarray(g, dtype=np.float64)          # a, b, a along zero_at with a empty: out == b
        elif c["kind"] == "addmm" and i == 0 and out.size:
            g64 = np.asarray(g, dtype=np.float64)
            e = g64.sum(axis=0) if t.ndim == 1 else g64
        exp.append(e)
    return exp
