"""Program interpreter for C19 (reproducibility): runs a JSON program over the random-consuming APIs and
returns a SHA-256 digest over bytes/shape/dtype of everything it produced.  Used in-process and by the
child process (`python -m synverif.c19_child`)."""
import hashlib
import importlib

import numpy as np


def poison_free_memory(value):
    """Fill many small buffers with `value` and free them: NumPy's allocation cache and malloc hand these blocks out
    again, so a buffer the library forgets to initialise (np.empty) shows run-specific contents instead of zeros."""
    for dtype in (np.float32, np.float64):
        bufs = [np.full(n, value, dtype=dtype) for n in (1, 2, 3, 4, 5, 6, 8, 9, 12, 16, 24, 32, 48, 64, 100, 128, 256) for _ in range(6)]
        del bufs


def run_program(prog, seed, sg=None, repeat_fixed=1, poison=None):
    if sg is None:
        from .env import sg as _sg
        sg = _sg
    if poison is not None:
        poison_free_memory(poison)
    nn = sg.nn
    Tensor = sg.Tensor
    h = hashlib.sha256()
    fixed_digests = []

    def put(a, tag=""):
        a = np.asarray(a)
        h.update(tag.encode())
        h.update(str(a.shape).encode())
        h.update(a.dtype.str.encode())
        h.update(np.ascontiguousarray(a).tobytes())

    def put_t(t, tag=""):
        put(t.data, tag)
        g = t.grad if t.has_grad() else None
        if g is not None:
            put(g.data, tag + ".grad")

    sg.manual_seed(seed)
    for si, s in enumerate(prog):
        k = s["k"]
        tag = f"{si}:{k}"
        if k == "rand":
            put_t(sg.rand(*s["shape"]), tag)
        elif k == "randn":
            put_t(sg.randn(*s["shape"]), tag)
        elif k == "normal":
            put_t(sg.normal(s["loc"], s["scale"], *s["shape"]), tag)
        elif k == "randint":
            put_t(sg.randint(s["low"], s["high"], tuple(s["shape"])), tag)
        elif k == "init":
            t = Tensor(np.zeros(s["shape"], dtype=np.float32))
            fn = getattr(nn.init, s["fn"])
            fn(t) if s["fn"] not in ("constant_",) else fn(t, 0.5)
            put_t(t, tag)
        elif k == "adam_eps0":
            for cls in (sg.optim.Adam, sg.optim.AdamW):
                pz = nn.Parameter(Tensor(np.array([1.0, 2.0, 3.0], dtype=np.float32), requires_grad=True))
                op_ = cls([pz], lr=0.1, eps=0)
                for _st in range(3):
                    op_.zero_grad()
                    (pz * Tensor(np.array([0.0, 1.0, 0.0], dtype=np.float32))).sum().backward()     # entries 0 and 2: zero gradient
                    op_.step()
                put(np.nan_to_num(pz.data, nan=-77.0), tag + cls.__name__)      # NaN payloads normalised, positions kept
        elif k == "init_all":
            # every initialiser in every documented argument spelling on non-square tensors (fan_in != fan_out)
            for shape in ([3, 5], [2, 3, 2]):
                for fname in ("uniform_", "normal_", "xavier_uniform_", "xavier_normal_"):
                    t = Tensor(np.zeros(shape, dtype=np.float32))
                    getattr(nn.init, fname)(t)
                    put_t(t, f"{tag}.{fname}{shape}")
                for fname in ("kaiming_uniform_", "kaiming_normal_"):
                    for mode in ("fan_in", "fan_out"):
                        for nl in ("leaky_relu", "relu", "tanh", "selu"):
                            t = Tensor(np.zeros(shape, dtype=np.float32))
                            getattr(nn.init, fname)(t, a=s.get("a", 0), mode=mode, nonlinearity=nl)
                            put_t(t, f"{tag}.{fname}{shape}{mode}{nl}")
        elif k == "layer":
            m = {"linear": lambda: nn.Linear(s["i"], s["o"]), "conv1d": lambda: nn.Conv1d(s["i"], s["o"], 3),
                 "conv2d": lambda: nn.Conv2d(s["i"], s["o"], (3, 2)),
                 "bn": lambda: nn.BatchNorm1d(s["o"], affine=s.get("affine", True), momentum=s.get("momentum", 0.1)),
                 "bn2d": lambda: nn.BatchNorm2d(s["o"], affine=s.get("affine", True))}[s["kind"]]()
            for p in m.parameters():
                put_t(p, tag)
            if s["kind"].startswith("bn"):
                # buffers are part of the layer's state: fresh, after training forwards, and as used in eval mode
                put(m.running_mean.data, tag + ".rm0"); put(m.running_var.data, tag + ".rv0")
                shape = (4, s["o"]) if s["kind"] == "bn" else (2, s["o"], 2, 2)
                xb = Tensor((np.arange(int(np.prod(shape)), dtype=np.float32).reshape(shape) % 7) / 3.0)
                for _ in range(2):
                    put_t(m(xb), tag + ".train_out")
                put(m.running_mean.data, tag + ".rm"); put(m.running_var.data, tag + ".rv")
                m.eval()
                put_t(m(xb), tag + ".eval_out")
        elif k == "apply_init":
            layers = [nn.Linear(3, 4), nn.Tanh(), nn.Linear(4, 4), nn.ReLU(), nn.Linear(4, 2), nn.Linear(2, 2), nn.Linear(2, 3)]
            model = nn.Sequential(*layers[:s["n"]])

            def init_weights(mod):
                if isinstance(mod, nn.Linear):
                    getattr(nn.init, s["fn"])(mod.weight)
            model.apply(init_weights)
            for p in model.parameters():
                put_t(p, tag)
        elif k == "dropout":
            m = nn.Dropout(s["p"])
            x = Tensor(np.arange(1, 1 + int(np.prod(s["shape"])), dtype=np.float32).reshape(s["shape"]), requires_grad=True)
            y = m(x)
            y.backward(Tensor(np.ones(y.shape, dtype=np.float32)))
            put_t(y, tag)
            put_t(x, tag + ".x")
        elif k == "split":
            data = importlib.import_module("synapgrad.nn.utils.data")
            n = s["n"]
            X = [[i, 2 * i] for i in range(n)]
            y = list(range(n))
            tr, te, va = data.split_dataset(X, y, test_split=s["test"], val_split=s.get("val"), shuffle=True)
            for part in (tr, te, va):
                if part is not None:
                    put(part[0], tag)
                    put(part[1], tag)
        elif k == "train":
            if s["model"] == "mlp":
                layers = [nn.Linear(4, 5), nn.Tanh() if s["act"] == "tanh" else nn.ReLU()]
                if s["dropout"]:
                    layers.append(nn.Dropout(0.3))
                if s["bn"]:
                    layers.append(nn.BatchNorm1d(5, affine=s.get("bn_affine", True)))
                layers.append(nn.Linear(5, 3))
                model = nn.Sequential(*layers)
                xb = sg.randn(6, 4)
            else:
                model = nn.Sequential(nn.Conv2d(1, 2, 3), nn.ReLU(), nn.MaxPool2d(2), nn.Flatten(), nn.Linear(2 * 2 * 2, 3))
                xb = sg.randn(4, 1, 6, 6)
            yb = sg.randint(0, 3, (xb.shape[0],))
            params = model.parameters()
            opt = sg.optim.SGD(params, lr=0.1, momentum=0.9) if s["opt"] == "sgd" else sg.optim.Adam(params, lr=0.01)
            loss_fn = nn.CrossEntropyLoss()
            model.train()
            for _ in range(s["steps"]):
                out = model(xb)
                loss = loss_fn(out, yb)
                opt.zero_grad()
                loss.backward()
                opt.step()
                put_t(loss, tag + ".loss")
            for p in params:
                put_t(p, tag + ".param")
            for m in model.submodules():
                if hasattr(m, "running_mean") and m.running_mean is not None:
                    put(m.running_mean.data, tag + ".rm"); put(m.running_var.data, tag + ".rv")
            model.eval()
            put_t(model(xb), tag + ".eval_out")
        elif k == "fixed":
            # fixed data, forward/backward through a DAG with fan-out; repeated `repeat_fixed` times
            step_digests = []
            for rep in range(repeat_fixed):
                hh = hashlib.sha256()
                x = Tensor(np.array(s["x"], dtype=np.float64).reshape(2, 3), requires_grad=True)
                w = Tensor(np.array(s["w"], dtype=np.float64).reshape(3, 2), requires_grad=True)
                y = x * 1.5
                z = sg.tanh(y) + y * y - y                 # y has fan-out 4
                parts = sg.unbind(z, 1)
                u = sg.stack([parts[2], parts[0], parts[1]], 1)
                v = (u @ w) + (z @ w) * 0.5               # z and w have fan-out 2
                vn = nn.functional.batch_norm(v, None, None, None, None, True)        # batch statistics
                loss = sg.log_softmax(v, 1).sum() + v.mean() + (vn * vn * vn).sum() * 0.25
                # the same recorded graph is differentiated twice (gradients cleared in between): what backward
                # computes must not depend on how often it has run
                for _pass in range(2):
                    hh = hashlib.sha256()
                    if _pass:
                        x.zero_(); w.zero_()
                    loss.backward()
                    for t in (loss, x, w):
                        for a in (t.data, t.grad.data):
                            a = np.asarray(a)
                            hh.update(str(a.shape).encode()); hh.update(a.dtype.str.encode()); hh.update(a.tobytes())
                    step_digests.append(hh.hexdigest())
            fixed_digests.append(step_digests)
            h.update(step_digests[-1].encode())
    return h.hexdigest(), fixed_digests
