"""Coverage-guided stage of the thorough tier: one atheris/libFuzzer campaign per strategy-driven sub-check
(see fuzzchild.py), run as subprocesses side by side; a failing input is shrunk by a second subprocess through the
ordinary Hypothesis engine and becomes the same kind of JSON replay file as everywhere else."""
import json
import os
import shutil
import subprocess
import sys
import time
from collections import Counter
from concurrent.futures import ThreadPoolExecutor

VERIF = os.path.dirname(os.path.dirname(os.path.abspath(__file__)))
DEPS = os.path.join(VERIF, ".deps")


def available():
    """atheris lives in /verif/.deps (installed offline from the wheelhouse by setup.sh / on first use)"""
    if not os.path.isdir(os.path.join(DEPS, "atheris")):
        try:
            subprocess.run([sys.executable, "-m", "pip", "install", "-q", "--no-index", "--find-links",
                            "/opt/veriftools/wheels", "--target", DEPS, "atheris"], capture_output=True, timeout=300)
        except Exception:  # noqa: BLE001
            return False
    return os.path.isdir(os.path.join(DEPS, "atheris"))


def _env():
    e = dict(os.environ)
    e["PYTHONPATH"] = DEPS + os.pathsep + VERIF + (os.pathsep + e["PYTHONPATH"] if e.get("PYTHONPATH") else "")
    e.setdefault("PYTHONHASHSEED", "0")
    return e


def _one(prop_id, sub_name, seed, known_sigs, execs, seconds):
    t0 = time.time()
    res = {"sub": sub_name, "shard": "fuzz", "evaluations": 0, "nontrivial_hashes": set(), "tags": Counter(),
           "skips": Counter(), "samples": [], "violations": [], "known_hits": Counter(), "error": None,
           "exhaustive": False, "wall_s": 0.0, "fuzz": {"campaigns": 0, "evaluations": 0, "invalid_buffers": 0,
                                                        "corpus_files": 0}}
    work = os.path.join(VERIF, "out", "fuzz", prop_id, "".join(ch if ch.isalnum() else "_" for ch in sub_name))
    known = list(known_sigs)
    try:
        for rnd in range(3):
            shutil.rmtree(work, ignore_errors=True)
            os.makedirs(work)
            p = subprocess.run([sys.executable, "-m", "synverif.fuzzchild", prop_id, sub_name, work, str(execs),
                                str(seconds), str(seed + 7919 * rnd), json.dumps(known)],
                               capture_output=True, text=True, env=_env(), cwd=VERIF, timeout=seconds * 4 + 300)
            st = {}
            sp = os.path.join(work, "stats.json")
            if os.path.exists(sp):
                st = json.load(open(sp))
            res["fuzz"]["campaigns"] += 1
            res["fuzz"]["evaluations"] += st.get("evaluations", 0)
            res["fuzz"]["invalid_buffers"] += st.get("invalid_buffers", 0)
            res["fuzz"]["corpus_files"] += len(os.listdir(os.path.join(work, "corpus"))) if os.path.isdir(os.path.join(work, "corpus")) else 0
            res["evaluations"] += st.get("evaluations", 0)
            res["nontrivial_hashes"] |= set(st.get("nontrivial", []))
            res["tags"].update(st.get("tags", {}))
            res["skips"].update(st.get("skips", {}))
            res["known_hits"].update(st.get("known_hits", {}))
            if p.returncode == 0:
                break
            if p.returncode != 77:
                res["error"] = f"fuzz child exit {p.returncode}: {(p.stdout + p.stderr)[-1500:]}"
                break
            q = subprocess.run([sys.executable, "-m", "synverif.fuzzchild", "--shrink", prop_id, sub_name, work,
                                json.dumps(known)], capture_output=True, text=True, env=_env(), cwd=VERIF, timeout=900)
            fp = os.path.join(work, "fail.json")
            if q.returncode != 0 or not os.path.exists(fp):
                res["error"] = f"fuzz shrink exit {q.returncode}: {(q.stdout + q.stderr)[-1500:]}"
                break
            fails = json.load(open(fp))
            if not fails:
                # the saved input did not fail again: keep searching, nothing to report
                continue
            for f in fails:
                f["detail"] = "[found by the coverage-guided stage] " + f["detail"]
                res["violations"].append(f)
                known.append(f["sig"])
    except subprocess.TimeoutExpired:
        res["fuzz"]["timed_out"] = True      # budget exceeded: inconclusive, never a verdict
    except Exception as e:  # noqa: BLE001
        res["error"] = f"fuzz stage: {type(e).__name__}: {e}"
    finally:
        shutil.rmtree(work, ignore_errors=True)
    res["wall_s"] = time.time() - t0
    return res


def run(prop_id, subs, names, seed, known_sigs, jobs, execs, seconds):
    todo = [n for n in names if subs[n].strategy is not None and subs[n].thorough > 0]
    if not todo:
        return []
    with ThreadPoolExecutor(max_workers=max(1, jobs)) as ex:
        futs = [ex.submit(_one, prop_id, n, seed, known_sigs, execs, seconds) for n in todo]
        return [f.result() for f in futs]
