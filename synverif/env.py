"""Import synapgrad from the tree under test (VERIF_REPO, default /repo) and set up a quiet,
deterministic numerical environment.  Imported by every worker before anything else."""
import os
import sys
import types
import warnings

os.environ.setdefault("MPLBACKEND", "Agg")
for _v in ("OMP_NUM_THREADS", "OPENBLAS_NUM_THREADS", "MKL_NUM_THREADS", "NUMEXPR_NUM_THREADS"):
    os.environ.setdefault(_v, "1")

REPO = os.path.realpath(os.environ.get("VERIF_REPO", "/repo"))
VERIF = os.path.realpath(os.path.join(os.path.dirname(os.path.abspath(__file__)), ".."))

if REPO not in sys.path[:1]:
    sys.path.insert(0, REPO)

# synapgrad.nn.utils.train imports pkbar (a progress bar) which cannot be imported in this image
# (pkg_resources is gone).  A stand-in is installed only if the real import fails; it carries no
# semantics of any property.
try:  # pragma: no cover
    import pkbar  # noqa: F401
except Exception:  # noqa: BLE001
    _pk = types.ModuleType("pkbar")

    class Kbar:  # minimal API used by Trainer
        def __init__(self, *a, **k):
            pass

        def update(self, *a, **k):
            pass

        def add(self, *a, **k):
            pass

    _pk.Kbar = Kbar
    sys.modules["pkbar"] = _pk

import numpy as np  # noqa: E402

warnings.filterwarnings("ignore")
np.seterr(all="ignore")

import synapgrad  # noqa: E402

_where = os.path.realpath(synapgrad.__file__)
if not _where.startswith(REPO + os.sep):
    raise ImportError(f"synapgrad imported from {_where}, expected under {REPO}")

sg = synapgrad


def reset_global_modes():
    """Reset the library's process-global gradient/retain modes at the top of a case, so that a defect that
    corrupts them in one case cannot leak into the next (used for isolation only, never for assertions)."""
    mod = sys.modules.get("synapgrad.tensor")
    if mod is not None:
        if hasattr(mod, "gradient__"):
            mod.gradient__ = True
        if hasattr(mod, "retain_grads__"):
            mod.retain_grads__ = False
