"""Catalogue of the tensor operations of the public API (synapgrad.functional / Tensor methods and
operators).  Each entry has: a generator of JSON-able cases, `apply` (the synapgrad call on Tensors),
`ref` (an independent NumPy float64 reference following the NumPy/PyTorch definition the op mirrors),
a `documented` predicate for the accept/reject protocol, and classification hooks.
Used by C01 (gradients), C05 (forward values), C10 (dtype/shape), C11 (no mutation)."""
from dataclasses import dataclass, field
from typing import Callable, Optional

import numpy as np
from hypothesis import strategies as st

from . import gen
from .env import sg

Tensor = sg.Tensor


@dataclass
class TOp:
    name: str
    gen: Callable                 # () -> strategy of {"xs": [{"shape","v"}], "args": {...}}
    apply: Callable               # (list[Tensor] leaves, args) -> Tensor | tuple[Tensor]
    ref: Callable                 # (list[np.ndarray float64] leaves, args) -> ndarray | list[ndarray]
    documented: Callable = lambda args, shapes: True
    exact: bool = False           # pure data movement -> bit-exact comparison
    nt: Callable = lambda args, shapes: False
    tags: Callable = lambda args, shapes: []
    multi: bool = False           # returns several tensors
    smooth: bool = True           # differentiable on the generated domain (no ties / kinks)
    tol64: float = 1e-12          # forward tolerance (relative to result scale) for float64 operands
    scales: tuple = (1.0,)        # operand magnitudes the op is exercised at (value grid times one of these)
    fd_hscale: Optional[Callable] = None   # args -> finite-difference step scale (default: the case's magnitude)
    torch: Optional[Callable] = None


def X(shape, v):
    return {"shape": list(shape), "v": v}


def _operands(ts, args):
    use = args.get("use")
    return [ts[i] for i in use] if use is not None else list(ts)


# =============================================================================================
# element-wise / broadcasting arithmetic
# =============================================================================================
BIN_FORMS = ["add_fn", "add_op", "mul_fn", "mul_op", "sub_op", "div_op"]


@st.composite
def gen_binary(draw):
    form = draw(st.sampled_from(BIN_FORMS))
    same = draw(st.integers(0, 7)) == 0
    if same:
        shp = draw(gen.shapes(0, 4, 60))
        v = draw(gen.grid_away_from_zero(shp))
        return {"xs": [X(shp, v)], "args": {"form": form, "use": [0, 0]}}
    a, b = draw(gen.broadcast_shapes(2, 4, 100))
    va = draw(gen.grid(a))
    vb = draw(gen.grid_away_from_zero(b, 2, 24)) if form == "div_op" else draw(gen.grid(b))
    return {"xs": [X(a, va), X(b, vb)], "args": {"form": form}}


def apply_binary(ts, args):
    a, b = _operands(ts, args)
    f = args["form"]
    if f == "add_fn":
        return sg.add(a, b)
    if f == "add_op":
        return a + b
    if f == "mul_fn":
        return sg.mul(a, b)
    if f == "mul_op":
        return a * b
    if f == "sub_op":
        return a - b
    if f == "div_op":
        return a / b
    raise KeyError(f)


def ref_binary(xs, args):
    a, b = _operands(xs, args)
    f = args["form"][:3]
    return {"add": np.add, "mul": np.multiply, "sub": np.subtract, "div": np.divide}[f](a, b)


def _bin_nt(args, shapes):
    if args.get("use"):
        return True
    a, b = shapes
    return list(a) != list(b)


def _bin_tags(args, shapes):
    t = [args["form"]]
    if args.get("use"):
        t.append("same_tensor_twice")
    else:
        a, b = shapes
        if list(a) != list(b):
            t.append("broadcast")
        if len(a) == 0 or len(b) == 0:
            t.append("0d_operand")
        if len(a) != len(b):
            t.append("rank_differs")
    return t


SCALAR_FORMS = ["add", "radd", "sub", "rsub", "mul", "rmul", "div", "rdiv"]


@st.composite
def gen_scalar(draw):
    form = draw(st.sampled_from(SCALAR_FORMS))
    shp = draw(gen.shapes(0, 4, 100))
    c = draw(st.sampled_from([-3, -2, -1, 2, 3, 5, -0.5, 0.25, 1.5, -2.5, 1, 0.125, 0.1, -0.7, 1e-3]))
    if draw(st.booleans()) and float(c).is_integer():
        c = int(c)
    v = draw(gen.grid_away_from_zero(shp, 2, 24)) if form == "rdiv" else draw(gen.grid(shp))
    args = {"form": form, "c": c}
    if not form.startswith("r") and draw(st.integers(0, 3)) == 0:
        # the scalar as a NumPy scalar (np.sqrt(d), np.float64(0.5)): a float subclass, still "a Python scalar operand"
        args["np_scalar"] = draw(st.sampled_from(["float64", "float64", "float32", "int64"]))
        if args["np_scalar"] == "int64" and not float(c).is_integer():
            args["np_scalar"] = "float64"
    return {"xs": [X(shp, v)], "args": args}


def apply_scalar(ts, args):
    x, c, f = ts[0], args["c"], args["form"]
    if args.get("np_scalar"):
        c = np.dtype(args["np_scalar"]).type(c)
    return {"add": lambda: x + c, "radd": lambda: c + x, "sub": lambda: x - c, "rsub": lambda: c - x,
            "mul": lambda: x * c, "rmul": lambda: c * x, "div": lambda: x / c, "rdiv": lambda: c / x}[f]()


def ref_scalar(xs, args):
    x, c, f = xs[0], float(np.dtype(args["np_scalar"]).type(args["c"])) if args.get("np_scalar") else float(args["c"]), args["form"]
    return {"add": lambda: x + c, "radd": lambda: c + x, "sub": lambda: x - c, "rsub": lambda: c - x,
            "mul": lambda: x * c, "rmul": lambda: c * x, "div": lambda: x / c, "rdiv": lambda: c / x}[f]()


@st.composite
def gen_unary_any(draw, forms):
    shp = draw(gen.shapes(0, 4, 100))
    return {"xs": [X(shp, draw(gen.grid(shp)))], "args": {"form": draw(st.sampled_from(forms))}}


@st.composite
def gen_unary_pos(draw, forms):
    shp = draw(gen.shapes(0, 4, 100))
    return {"xs": [X(shp, draw(gen.grid_positive(shp)))], "args": {"form": draw(st.sampled_from(forms))}}


def _meth_or_fn(name):
    def ap(ts, args):
        x = ts[0]
        if args["form"] == "method":
            return getattr(x, name)()
        return getattr(sg, name)(x)
    return ap


def apply_neg(ts, args):
    return -ts[0] if args["form"] == "op" else sg.neg(ts[0])


# ---- matmul / addmm -------------------------------------------------------------------------
@st.composite
def gen_matmul(draw):
    n, k, m = draw(st.integers(1, 3)), draw(st.integers(1, 3)), draw(st.integers(1, 3))
    ba, bb = draw(gen.broadcast_shapes(2, 2, 6))
    a = list(ba) + [n, k]
    b = list(bb) + [k, m]
    return {"xs": [X(a, draw(gen.grid(a, -16, 16))), X(b, draw(gen.grid(b, -16, 16)))],
            "args": {"form": draw(st.sampled_from(["fn", "op"]))}}


def apply_matmul(ts, args):
    return sg.matmul(ts[0], ts[1]) if args["form"] == "fn" else ts[0] @ ts[1]


def ref_matmul(xs, args):
    a, b = xs
    return np.einsum("...ik,...kj->...ij", a, b)


def _mm_shape(s):
    return list(np.broadcast_shapes(tuple(s[1][:-2]), tuple(s[2][:-2]))) + [s[1][-2], s[2][-1]]


def _size_of(shape):
    n = 1
    for v in shape:
        n *= v
    return n


@st.composite
def gen_addmm(draw):
    n, k, m = draw(st.integers(1, 3)), draw(st.integers(1, 3)), draw(st.integers(1, 3))
    a = draw(st.sampled_from([[], [m], [1, m], [n, 1], [n, m], [1, 1], [1]]))
    bs, cs = [n, k], [k, m]
    wide = draw(st.integers(0, 3)) == 0
    if wide:
        # "x1 + x2 @ x3" with full broadcasting: batched factors, and an x1 that is LARGER than the product
        # (extra leading dims, or a dim > 1 where the product has size 1)
        bb, bc = draw(gen.broadcast_shapes(2, 2, 4))
        bs, cs = list(bb) + bs, list(bc) + cs
        prod = list(np.broadcast_shapes(tuple(bb), tuple(bc))) + [n, m]
        a = []
        for d in prod:
            a.append(draw(st.sampled_from([d, d, 1])) if d > 1 else draw(st.sampled_from([1, 1, 2, 3])))
        if draw(st.booleans()):
            a = [draw(st.integers(1, 3))] + a
        elif draw(st.booleans()):
            a = a[draw(st.integers(0, len(a))):]
    return {"xs": [X(a, draw(gen.grid(a, -16, 16))), X(bs, draw(gen.grid(bs, -16, 16))),
                   X(cs, draw(gen.grid(cs, -16, 16)))], "args": {"wide": wide}}


# ---- pow / rpow -------------------------------------------------------------------------------
@st.composite
def gen_pow(draw):
    shp = draw(gen.shapes(0, 4, 100))
    kind = draw(st.sampled_from(["int", "int", "frac"]))
    if kind == "int":
        n = draw(st.integers(-3, 4))
        if draw(st.booleans()):
            n = float(n)
        v = draw(gen.grid_away_from_zero(shp, 4, 20)) if n <= 1 else draw(gen.grid(shp, -20, 20))
    else:
        n = draw(st.sampled_from([0.5, 1.5, -0.5, 2.5, 0.25, -1.5]))
        v = draw(gen.grid_positive(shp, 2, 24))
    return {"xs": [X(shp, v)], "args": {"n": n, "form": draw(st.sampled_from(["op", "fn"]))}}


def apply_pow(ts, args):
    return ts[0] ** args["n"] if args["form"] == "op" else sg.pow(ts[0], args["n"])


@st.composite
def gen_rpow(draw):
    shp = draw(gen.shapes(0, 4, 100))
    n = draw(st.sampled_from([2, 3, 0.5, 1.5, 2.5, 1, 10, 0.25]))
    return {"xs": [X(shp, draw(gen.grid(shp, -16, 16)))],
            "args": {"n": n, "form": draw(st.sampled_from(["op", "fn"]))}}


def apply_rpow(ts, args):
    return args["n"] ** ts[0] if args["form"] == "op" else sg.rpow(ts[0], args["n"])


# =============================================================================================
# indexing
# =============================================================================================
def decode_index(items, as_tuple=True):
    out = []
    for it in items:
        t = it[0]
        if t == "i":
            out.append(int(it[1]))
        elif t == "s":
            out.append(slice(it[1], it[2], it[3]))
        elif t == "e":
            out.append(Ellipsis)
        elif t == "n":
            out.append(None)
        elif t == "l":
            out.append(list(it[1]))
        elif t == "t":                       # integer sequence spelled as a tuple (still advanced indexing)
            out.append(tuple(it[1]))
        elif t == "a":                       # integer sequence spelled as an ndarray
            out.append(np.array(it[1], dtype=np.int64))
        elif t == "m":
            out.append(np.array(it[1], dtype=bool))
        else:
            raise KeyError(t)
    if not as_tuple and len(out) == 1:
        return out[0]
    return tuple(out)


@st.composite
def _slice_item(draw, n):
    start = draw(st.one_of(st.none(), st.integers(-n - 1, n + 1)))
    stop = draw(st.one_of(st.none(), st.integers(-n - 1, n + 1)))
    step = draw(st.sampled_from([None, None, 1, 2, 3, -1, -2]))
    if len(range(*slice(start, stop, step).indices(n))) == 0:
        start, stop = None, None
    return ["s", start, stop, step]


@st.composite
def gen_getitem(draw):
    shp = draw(gen.shapes(0, 4, 100))
    nd = len(shp)
    m = draw(st.integers(0, nd))
    use_ell = draw(st.integers(0, 2)) == 0
    # one case in six: the whole key is ONE bare index object (x[[0, 2]], x[mask], x[array]) - not a tuple
    bare = nd >= 1 and draw(st.integers(0, 5)) == 0
    if bare:
        m, use_ell = 1, False
    n_before = draw(st.integers(0, m)) if use_ell else m
    dims = list(range(n_before)) + list(range(nd - (m - n_before), nd))
    adv_len = None
    n_adv = 0
    per = []
    mask_used = False
    for dpos in dims:
        n = shp[dpos]
        kind = draw(st.sampled_from(["l", "l", "m"] if bare else ["i", "s", "s", "l", "m"]))
        if kind == "l" and n_adv < 2 and not mask_used:
            if adv_len is None:
                adv_len = draw(st.integers(1, 4))
            per.append([draw(st.sampled_from(["l", "l", "t", "a"])), [draw(st.integers(-n, n - 1)) for _ in range(adv_len)]])
            n_adv += 1
        elif kind == "m" and n_adv == 0 and not mask_used:
            msk = [draw(st.booleans()) for _ in range(n)]
            if not any(msk):
                msk[draw(st.integers(0, n - 1))] = True
            per.append(["m", msk])
            mask_used = True
        elif kind == "i":
            per.append(["i", draw(st.integers(-n, n - 1))])
        else:
            per.append(draw(_slice_item(n)))
    items = per[:n_before] + ([["e"]] if use_ell else []) + per[n_before:]
    # sprinkle newaxis
    for _ in range(0 if bare else draw(st.sampled_from([0, 0, 1, 2]))):
        items.insert(draw(st.integers(0, len(items))), ["n"])
    as_tuple = (not bare and draw(st.booleans())) or len(items) != 1 or items[0][0] == "t"
    return {"xs": [X(shp, draw(gen.grid(shp)))], "args": {"key": items, "tuple": as_tuple,
                                                          "form": draw(st.sampled_from(["index", "index", "fn"]))}}


def apply_getitem(ts, args):
    key = decode_index(args["key"], args.get("tuple", True))
    if args.get("form") == "fn":
        return sg.slice(ts[0], key)          # the functional spelling of x[key]
    return ts[0][key]


def ref_getitem(xs, args):
    return xs[0][decode_index(args["key"], args.get("tuple", True))]


def _getitem_tags(args, shapes):
    t = []
    kinds = ["l" if it[0] in ("t", "a") else it[0] for it in args["key"]]
    if any(it[0] == "t" for it in args["key"]):
        t.append("int_tuple_index")
    if any(it[0] == "a" for it in args["key"]):
        t.append("int_ndarray_index")
    if "l" in kinds:
        t.append("int_list_index")
        for it in args["key"]:
            if it[0] in ("l", "t", "a"):
                if len(set(it[1])) < len(it[1]):
                    t.append("repeated_index")
                    break
    if "m" in kinds:
        t.append("bool_mask")
    if not args.get("tuple", True):
        t.append("bare_key_not_a_tuple")
    if "e" in kinds:
        t.append("ellipsis")
    if "n" in kinds:
        t.append("newaxis")
    if any(it[0] == "s" and it[3] not in (None, 1) for it in args["key"]):
        t.append("stepped_slice")
    return t


# =============================================================================================
# concat / stack / unbind
# =============================================================================================
@st.composite
def gen_concat(draw):
    base = draw(gen.shapes(1, 4, 40))
    nd = len(base)
    dim = draw(st.integers(-nd, nd - 1))
    k = draw(st.integers(1, 3))
    xs = []
    for _ in range(k):
        shp = list(base)
        shp[dim] = draw(st.integers(1, 3))
        xs.append(X(shp, draw(gen.grid(shp))))
    use = list(range(k))
    for _ in range(draw(st.sampled_from([0, 0, 1, 2]))):      # same tensor several times
        use.insert(draw(st.integers(0, len(use))), draw(st.integers(0, k - 1)))
    return {"xs": xs, "args": {"dim": dim, "use": use, "seq": draw(st.sampled_from(["list", "tuple"])),
                               "mutate_after": draw(st.booleans())}}


def _seq(ts, args):
    ops = _operands(ts, args)
    return tuple(ops) if args.get("seq") == "tuple" else list(ops)


def _after(seq, args):
    """the caller re-uses its own list after the call: the recorded operation must not depend on it any more"""
    if isinstance(seq, list) and args.get("mutate_after"):
        seq.clear()


def apply_concat(ts, args):
    seq = _seq(ts, args)
    out = sg.concat(seq, args["dim"])
    _after(seq, args)
    return out


def ref_concat(xs, args):
    ops = _operands(xs, args)
    nd = ops[0].ndim
    dim = args["dim"] % nd
    total = sum(o.shape[dim] for o in ops)
    shp = list(ops[0].shape)
    shp[dim] = total
    out = np.empty(shp, dtype=np.float64)
    pos = 0
    for o in ops:
        sl = [slice(None)] * nd
        sl[dim] = slice(pos, pos + o.shape[dim])
        out[tuple(sl)] = o
        pos += o.shape[dim]
    return out


@st.composite
def gen_stack(draw):
    base = draw(gen.shapes(0, 3, 40))
    nd = len(base)
    dim = draw(st.integers(-nd - 1, nd))
    k = draw(st.integers(1, 3))
    xs = [X(base, draw(gen.grid(base))) for _ in range(k)]
    use = list(range(k))
    for _ in range(draw(st.sampled_from([0, 0, 1]))):
        use.insert(draw(st.integers(0, len(use))), draw(st.integers(0, k - 1)))
    args = {"dim": dim, "use": use, "seq": draw(st.sampled_from(["list", "tuple"])), "mutate_after": draw(st.booleans())}
    if dim == 0 and draw(st.booleans()):
        args["default_dim"] = True
    return {"xs": xs, "args": args}


def apply_stack(ts, args):
    seq = _seq(ts, args)
    out = sg.stack(seq) if args.get("default_dim") else sg.stack(seq, args["dim"])
    _after(seq, args)
    return out


def ref_stack(xs, args):
    ops = _operands(xs, args)
    nd = ops[0].ndim + 1
    dim = args["dim"] % nd
    return ref_concat([np.expand_dims(o, dim) for o in ops], {"dim": dim})


@st.composite
def gen_unbind(draw):
    shp = draw(gen.shapes(1, 4, 100))
    nd = len(shp)
    dim = draw(st.integers(-nd, nd - 1))
    args = {"dim": dim}
    if dim == 0 and draw(st.booleans()):
        args["default_dim"] = True
    return {"xs": [X(shp, draw(gen.grid(shp)))], "args": args}


def apply_unbind(ts, args):
    if args.get("default_dim"):
        return sg.unbind(ts[0])
    return sg.unbind(ts[0], args["dim"])


def ref_unbind(xs, args):
    x = xs[0]
    dim = args["dim"] % x.ndim
    return [np.take(x, i, axis=dim) for i in range(x.shape[dim])]


# =============================================================================================
# reductions
# =============================================================================================
@st.composite
def _dim_arg(draw, nd, allow_tuple=True, allow_none=True, allow_empty=False):
    kinds = (["none"] if allow_none else []) + (["int", "int"] if nd > 0 else []) + \
            (["tuple"] if allow_tuple and nd > 0 else [])
    if allow_empty and allow_tuple and draw(st.integers(0, 9)) == 0:
        return {"tuple": []}            # dim=(): reduce over no dimension at all (NumPy: the identity)
    kind = draw(st.sampled_from(kinds))
    if kind == "none":
        return None
    if kind == "int":
        return draw(st.integers(-nd, nd - 1))
    k = draw(st.integers(1, nd))
    dims = draw(st.permutations(list(range(nd))))[:k]
    return {"tuple": [d - nd if draw(st.booleans()) else d for d in dims]}


def dimval(d):
    if isinstance(d, dict):
        return tuple(d["tuple"])
    return d


@st.composite
def gen_reduce(draw, distinct=False, allow_tuple=True):
    shp = draw(gen.shapes(0, 4, 60 if distinct else 100))
    nd = len(shp)
    dim = draw(_dim_arg(nd, allow_tuple, allow_empty=True))
    v = draw(gen.distinct(shp)) if distinct else draw(gen.grid(shp))
    args = {"dim": dim, "keepdims": draw(st.booleans()), "form": draw(st.sampled_from(["method", "fn"]))}
    if dim is None and not args["keepdims"] and draw(st.booleans()):
        args["bare"] = True       # x.sum() with no arguments at all
    if dim is not None and draw(st.integers(0, 5)) == 0:
        args["np_int"] = True     # the dim(s) as NumPy integers (an axis computed with NumPy): int-like, not `int`
    return {"xs": [X(shp, v)], "args": args}


def _apply_reduce(name):
    def ap(ts, args):
        x = ts[0]
        if args.get("bare"):
            return getattr(x, name)()
        d = dimval(args["dim"])
        if args.get("np_int"):
            d = tuple(np.int64(v) for v in d) if isinstance(d, tuple) else np.int64(d)
        if args["form"] == "method":
            return getattr(x, name)(d, args["keepdims"])
        return getattr(sg, name)(x, d, args["keepdims"])
    return ap


def _axes(dim, nd):
    if dim is None or nd == 0:          # (naming dim 0 / -1 of a 0-d tensor reduces over nothing)
        return tuple(range(nd))
    d = dimval(dim)
    if isinstance(d, int):
        d = (d,)
    return tuple(sorted(a % nd for a in d))


def _ref_reduce(ufunc_reduce, mean=False):
    def ref(xs, args):
        x = xs[0]
        ax = _axes(args["dim"], x.ndim)
        out = x
        for a in reversed(ax):      # reduce one axis at a time, highest first
            out = ufunc_reduce(out, axis=a)
        if mean:
            cnt = 1
            for a in ax:
                cnt *= x.shape[a]
            out = out / cnt
        if args["keepdims"]:
            shp = [1 if i in ax else s for i, s in enumerate(x.shape)]
            out = np.reshape(out, shp)
        return np.asarray(out)
    return ref


def _reduce_tags(args, shapes):
    t = []
    d = args["dim"]
    if args.get("np_int"):
        t.append("numpy_integer_dim")
    if isinstance(args.get("dim"), dict) and not args["dim"]["tuple"]:
        t.append("empty_tuple_dim")
    if d is None:
        t.append("dim_none")
    elif isinstance(d, dict):
        t.append("tuple_dim")
        if any(v < 0 for v in d["tuple"]):
            t.append("negative_in_tuple")
    elif d < 0:
        t.append("negative_dim")
    if args["keepdims"]:
        t.append("keepdims")
    if len(shapes[0]) == 0:
        t.append("0d_operand")
    return t


def _reduce_nt(args, shapes):
    return args["dim"] is not None or args["keepdims"] or len(shapes[0]) in (0, 4)


# =============================================================================================
# shape manipulation
# =============================================================================================
@st.composite
def gen_squeeze(draw):
    shp = draw(gen.shapes(0, 4, 100, side=st.sampled_from([1, 1, 1, 2, 3])))
    nd = len(shp)
    dim = draw(_dim_arg(nd))
    args = {"dim": dim, "form": draw(st.sampled_from(["method", "fn"]))}
    if dim is None and draw(st.booleans()):
        args["bare"] = True
    return {"xs": [X(shp, draw(gen.grid(shp)))], "args": args}


def apply_squeeze(ts, args):
    x = ts[0]
    if args.get("bare"):
        return x.squeeze()
    d = dimval(args["dim"])
    return x.squeeze(d) if args["form"] == "method" else sg.squeeze(x, d)


def ref_squeeze(xs, args):
    x = xs[0]
    d = args["dim"]
    if d is None:
        keep = [s for s in x.shape if s != 1]
    else:
        ax = _axes(d, x.ndim)
        keep = [s for i, s in enumerate(x.shape) if not (i in ax and s == 1)]
    return x.reshape(keep)


@st.composite
def gen_unsqueeze(draw):
    shp = draw(gen.shapes(0, 4, 100))
    nd = len(shp)
    if draw(st.integers(0, 3)) == 0:
        k = draw(st.integers(1, 2))
        tot = nd + k
        pos = draw(st.permutations(list(range(tot))))[:k]
        dim = {"tuple": [p - tot if draw(st.booleans()) else p for p in pos]}
    else:
        dim = draw(st.integers(-nd - 1, nd))
    return {"xs": [X(shp, draw(gen.grid(shp)))],
            "args": {"dim": dim, "form": draw(st.sampled_from(["method", "fn"]))}}


def apply_unsqueeze(ts, args):
    d = dimval(args["dim"])
    return ts[0].unsqueeze(d) if args["form"] == "method" else sg.unsqueeze(ts[0], d)


def ref_unsqueeze(xs, args):
    x = xs[0]
    d = dimval(args["dim"])
    if isinstance(d, int):
        d = (d,)
    tot = x.ndim + len(d)
    pos = sorted(p % tot for p in d)
    shp = list(x.shape)
    for p in pos:
        shp.insert(p, 1)
    return x.reshape(shp)


@st.composite
def gen_reshape(draw):
    shp = draw(gen.shapes(0, 4, 100))
    n = 1
    for s in shp:
        n *= s
    # factor n into a new shape
    new = []
    rem = n
    for _ in range(draw(st.integers(0, 4))):
        divs = [d for d in range(1, rem + 1) if rem % d == 0]
        f = draw(st.sampled_from(divs))
        new.append(f)
        rem //= f
    if rem != 1 or not new and n != 1:
        new.append(rem)
    if new and draw(st.booleans()):
        new[draw(st.integers(0, len(new) - 1))] = -1
    return {"xs": [X(shp, draw(gen.grid(shp)))],
            "args": {"shape": new, "as": draw(st.sampled_from(["tuple", "list"])),
                     "form": draw(st.sampled_from(["method", "fn"]))}}


def apply_reshape(ts, args):
    shp = tuple(args["shape"]) if args["as"] == "tuple" else list(args["shape"])
    return ts[0].reshape(shp) if args["form"] == "method" else sg.reshape(ts[0], shp)


def ref_reshape(xs, args):
    x = xs[0]
    shp = list(args["shape"])
    if -1 in shp:
        known = 1
        for s in shp:
            if s != -1:
                known *= s
        shp[shp.index(-1)] = x.size // known
    flat = np.array([v for v in x.flat], dtype=np.float64)
    return flat.reshape(shp)


@st.composite
def gen_movedim(draw):
    shp = draw(gen.shapes(1, 4, 100))
    nd = len(shp)
    if draw(st.integers(0, 2)) == 0 and nd >= 2:
        k = draw(st.integers(1, nd))
        src = draw(st.permutations(list(range(nd))))[:k]
        dst = draw(st.permutations(list(range(nd))))[:k]
        sgn = lambda v: v - nd if draw(st.booleans()) else v  # noqa: E731
        args = {"source": {"tuple": [sgn(v) for v in src]}, "destination": {"tuple": [sgn(v) for v in dst]}}
    else:
        args = {"source": draw(st.integers(-nd, nd - 1)), "destination": draw(st.integers(-nd, nd - 1))}
    args["form"] = draw(st.sampled_from(["movedim", "moveaxis", "fn"]))
    return {"xs": [X(shp, draw(gen.grid(shp)))], "args": args}


def apply_movedim(ts, args):
    s, d = dimval(args["source"]), dimval(args["destination"])
    if args["form"] == "movedim":
        return ts[0].movedim(s, d)
    if args["form"] == "moveaxis":
        return ts[0].moveaxis(s, d)
    return sg.movedim(ts[0], s, d)


def movedim_perm(nd, s, d):
    if isinstance(s, int):
        s, d = (s,), (d,)
    s = [v % nd for v in s]
    d = [v % nd for v in d]
    perm = [None] * nd
    for a, b in zip(s, d):
        perm[b] = a
    rest = [i for i in range(nd) if i not in s]
    it = iter(rest)
    for i in range(nd):
        if perm[i] is None:
            perm[i] = next(it)
    return perm


def ref_movedim(xs, args):
    x = xs[0]
    return np.transpose(x, movedim_perm(x.ndim, dimval(args["source"]), dimval(args["destination"])))


def _movedim_tags(args, shapes):
    nd = len(shapes[0])
    perm = movedim_perm(nd, dimval(args["source"]), dimval(args["destination"]))
    t = []
    inv = [perm.index(i) for i in range(nd)]
    if inv != perm:
        t.append("non_involutive")
    if isinstance(args["source"], dict):
        t.append("tuple_dims")
    if perm != list(range(nd)):
        t.append("moves")
    return t


@st.composite
def gen_transpose(draw):
    shp = draw(gen.shapes(1, 4, 100))
    nd = len(shp)
    return {"xs": [X(shp, draw(gen.grid(shp)))],
            "args": {"dim0": draw(st.integers(-nd, nd - 1)), "dim1": draw(st.integers(-nd, nd - 1)),
                     "form": draw(st.sampled_from(["method", "fn"]))}}


def apply_transpose(ts, args):
    if args["form"] == "method":
        return ts[0].transpose(args["dim0"], args["dim1"])
    return sg.transpose(ts[0], args["dim0"], args["dim1"])


def ref_transpose(xs, args):
    x = xs[0]
    perm = list(range(x.ndim))
    a, b = args["dim0"] % x.ndim, args["dim1"] % x.ndim
    perm[a], perm[b] = perm[b], perm[a]
    return np.transpose(x, perm)


@st.composite
def gen_flatten(draw):
    shp = draw(gen.shapes(0, 4, 100))
    nd = len(shp)
    lo, hi = (-nd, nd - 1) if nd > 0 else (-1, 0)
    s = draw(st.integers(lo, hi))
    e = draw(st.integers(lo, hi))
    # the mirrored operation requires start <= end after normalisation; generate only legal pairs
    sn, en = (s % nd, e % nd) if nd > 0 else (0, 0)
    if sn > en:
        s, e = e, s
    args = {"start": s, "end": e, "form": draw(st.sampled_from(["method", "fn"]))}
    if draw(st.integers(0, 3)) == 0:
        args["bare"] = True
        args["start"], args["end"] = 0, -1
    return {"xs": [X(shp, draw(gen.grid(shp)))], "args": args}


def apply_flatten(ts, args):
    if args.get("bare"):
        return ts[0].flatten() if args["form"] == "method" else sg.flatten(ts[0])
    if args["form"] == "method":
        return ts[0].flatten(args["start"], args["end"])
    return sg.flatten(ts[0], args["start"], args["end"])


def ref_flatten(xs, args):
    x = xs[0]
    nd = x.ndim
    if nd == 0:
        return x.reshape(1)
    s, e = args["start"] % nd, args["end"] % nd
    shp = list(x.shape[:s]) + [int(np.prod(x.shape[s:e + 1]))] + list(x.shape[e + 1:])
    return x.reshape(shp)


def _flatten_documented(args, shapes):
    # the docstring documents int start/end with defaults (0,-1); non-negative dims and -1 are the
    # documented spellings; other negative values are legal in the mirrored op but not spelled out.
    return args["start"] >= 0 and (args["end"] >= 0 or args["end"] == -1) or args.get("bare", False)


@st.composite
def gen_unfold_dim(draw):
    shp = draw(gen.shapes(1, 4, 100, side=st.sampled_from([1, 2, 3, 4, 5, 6])))
    nd = len(shp)
    dim = draw(st.integers(-nd, nd - 1))
    n = shp[dim]
    size = draw(st.integers(1, n))
    step = draw(st.integers(1, n + 1))
    return {"xs": [X(shp, draw(gen.grid(shp)))],
            "args": {"dimension": dim, "size": size, "step": step,
                     "form": draw(st.sampled_from(["method", "fn"]))}}


def apply_unfold_dim(ts, args):
    if args["form"] == "method":
        return ts[0].unfold(args["dimension"], args["size"], args["step"])
    return sg.unfold_dim(ts[0], args["dimension"], args["size"], args["step"])


def ref_unfold_dim(xs, args):
    """torch.Tensor.unfold: dimension `d` is replaced by the number of windows and a new last
    dimension of length `size` is appended."""
    x = xs[0]
    d = args["dimension"] % x.ndim
    size, step = args["size"], args["step"]
    nwin = (x.shape[d] - size) // step + 1
    wins = []
    for w in range(nwin):
        idx = [w * step + j for j in range(size)]
        piece = np.take(x, idx, axis=d)           # (..., size at d, ...)
        wins.append(np.moveaxis(piece, d, -1))    # size -> last; dim d removed
    return np.stack(wins, axis=d)


def _unfold_tags(args, shapes):
    t = []
    if args["step"] < args["size"]:
        t.append("overlapping_windows")
    if args["step"] > args["size"]:
        t.append("step_gt_size")
    if args["dimension"] < 0:
        t.append("negative_dim")
    if args["dimension"] % len(shapes[0]) != len(shapes[0]) - 1:
        t.append("not_last_dim")
    return t


# =============================================================================================
# catalogue
# =============================================================================================
def _neg_dim_tags(key):
    def f(args, shapes):
        return ["negative_dim"] if isinstance(args.get(key), int) and args[key] < 0 else []
    return f


OPS = [
    TOp("binary", gen_binary, apply_binary, ref_binary, nt=_bin_nt, tags=_bin_tags),
    TOp("scalar_arith", gen_scalar, apply_scalar, ref_scalar, nt=lambda a, s: a["form"].startswith("r"),
        tags=lambda a, s: [a["form"], "int_scalar" if isinstance(a["c"], int) else "float_scalar"]),
    TOp("neg", lambda: gen_unary_any(["op", "fn"]), apply_neg, lambda xs, a: -xs[0], exact=True,
        nt=lambda a, s: len(s[0]) in (0, 4)),
    TOp("matmul", gen_matmul, apply_matmul, ref_matmul,
        nt=lambda a, s: list(s[0][:-2]) != list(s[1][:-2]), tags=lambda a, s: (["batch_broadcast"] if list(s[0][:-2]) != list(s[1][:-2]) else [])),
    TOp("addmm", gen_addmm, lambda ts, a: sg.addmm(ts[0], ts[1], ts[2]),
        lambda xs, a: xs[0] + np.einsum("...ik,...kj->...ij", xs[1], xs[2]),
        nt=lambda a, s: list(s[0]) != _mm_shape(s),
        tags=lambda a, s: (["bias_broadcast" if list(s[0]) != _mm_shape(s) else "bias_full"]
                           + (["x1_larger_than_product"] if _size_of(s[0]) > _size_of(_mm_shape(s)) or len(s[0]) > len(_mm_shape(s)) else [])
                           + (["batched_factors"] if len(s[1]) > 2 or len(s[2]) > 2 else []))),
    TOp("pow", gen_pow, apply_pow, lambda xs, a: np.power(xs[0], float(a["n"])),
        nt=lambda a, s: a["n"] not in (2, 2.0, 1, 1.0),
        tags=lambda a, s: ["int_exp" if float(a["n"]).is_integer() else "frac_exp"] + (["neg_exp"] if a["n"] < 0 else [])),
    TOp("rpow", gen_rpow, apply_rpow, lambda xs, a: np.power(float(a["n"]), xs[0]),
        nt=lambda a, s: True, tags=lambda a, s: [a["form"]]),
    TOp("getitem", gen_getitem, apply_getitem, ref_getitem, exact=True,
        nt=lambda a, s: len(a["key"]) > 0, tags=_getitem_tags),
    TOp("concat", gen_concat, apply_concat, ref_concat, exact=True,
        nt=lambda a, s: a["dim"] != 0 or len(set(a["use"])) < len(a["use"]),
        tags=lambda a, s: _neg_dim_tags("dim")(a, s) + (["same_tensor_twice"] if len(set(a["use"])) < len(a["use"]) else [])),
    TOp("stack", gen_stack, apply_stack, ref_stack, exact=True,
        nt=lambda a, s: a["dim"] != 0 or len(set(a["use"])) < len(a["use"]),
        tags=lambda a, s: _neg_dim_tags("dim")(a, s) + (["same_tensor_twice"] if len(set(a["use"])) < len(a["use"]) else [])),
    TOp("unbind", gen_unbind, apply_unbind, ref_unbind, exact=True, multi=True,
        nt=lambda a, s: a["dim"] != 0, tags=_neg_dim_tags("dim")),
    TOp("clone", lambda: gen_unary_any(["method", "fn"]), _meth_or_fn("clone"), lambda xs, a: xs[0].copy(), exact=True,
        nt=lambda a, s: len(s[0]) in (0, 4)),
    TOp("exp", lambda: gen_unary_any(["method", "fn"]), _meth_or_fn("exp"), lambda xs, a: np.exp(xs[0]),
        nt=lambda a, s: len(s[0]) in (0, 4)),
    # the library documents a 1e-12 guard inside log (log(x + 1e-12)); on the generated domain x >= 1/4
    # it moves the result by at most 4e-12, which the tolerance admits
    TOp("log", lambda: gen_unary_pos(["method", "fn"]), _meth_or_fn("log"), lambda xs, a: np.log(xs[0]),
        nt=lambda a, s: len(s[0]) in (0, 4), tol64=1e-10),
    TOp("sqrt", lambda: gen_unary_pos(["method", "fn"]), _meth_or_fn("sqrt"), lambda xs, a: np.sqrt(xs[0]),
        nt=lambda a, s: len(s[0]) in (0, 4)),
    TOp("sum", gen_reduce, _apply_reduce("sum"), _ref_reduce(np.add.reduce), nt=_reduce_nt, tags=_reduce_tags),
    TOp("mean", gen_reduce, _apply_reduce("mean"), _ref_reduce(np.add.reduce, mean=True), nt=_reduce_nt, tags=_reduce_tags),
    TOp("max", lambda: gen_reduce(distinct=True, allow_tuple=False), _apply_reduce("max"),
        _ref_reduce(np.maximum.reduce), exact=True, nt=_reduce_nt, tags=_reduce_tags),
    TOp("min", lambda: gen_reduce(distinct=True, allow_tuple=False), _apply_reduce("min"),
        _ref_reduce(np.minimum.reduce), exact=True, nt=_reduce_nt, tags=_reduce_tags),
    TOp("squeeze", gen_squeeze, apply_squeeze, ref_squeeze, exact=True,
        nt=lambda a, s: a["dim"] is not None, tags=lambda a, s: _sq_tags(a, s)),
    TOp("unsqueeze", gen_unsqueeze, apply_unsqueeze, ref_unsqueeze, exact=True,
        nt=lambda a, s: isinstance(a["dim"], dict) or a["dim"] < 0,
        tags=lambda a, s: ["tuple_dim"] if isinstance(a["dim"], dict) else (["negative_dim"] if a["dim"] < 0 else [])),
    TOp("reshape", gen_reshape, apply_reshape, ref_reshape, exact=True,
        nt=lambda a, s: -1 in a["shape"] or len(a["shape"]) != len(s[0]),
        tags=lambda a, s: ["minus_one"] if -1 in a["shape"] else []),
    TOp("movedim", gen_movedim, apply_movedim, ref_movedim, exact=True,
        nt=lambda a, s: "moves" in _movedim_tags(a, s), tags=_movedim_tags,
        documented=lambda a, s: isinstance(a["source"], int)),
    TOp("transpose", gen_transpose, apply_transpose, ref_transpose, exact=True,
        nt=lambda a, s: a["dim0"] % len(s[0]) != a["dim1"] % len(s[0]),
        tags=lambda a, s: (["negative_dim"] if a["dim0"] < 0 or a["dim1"] < 0 else []) + (["equal_dims"] if a["dim0"] % len(s[0]) == a["dim1"] % len(s[0]) else [])),
    TOp("flatten", gen_flatten, apply_flatten, ref_flatten, exact=True, documented=_flatten_documented,
        nt=lambda a, s: (a["start"], a["end"]) != (0, -1) or len(s[0]) == 0,
        tags=lambda a, s: (["default_args"] if (a["start"], a["end"]) == (0, -1) else ["partial"]) + (["0d_operand"] if len(s[0]) == 0 else []) + (["negative_start_or_end"] if a["start"] < 0 or a["end"] < -1 else [])),
    TOp("unfold_dim", gen_unfold_dim, apply_unfold_dim, ref_unfold_dim, exact=True,
        nt=lambda a, s: True, tags=_unfold_tags),
]


def _sq_tags(args, shapes):
    t = _reduce_tags({"dim": args["dim"], "keepdims": False}, shapes)
    d = args["dim"]
    if d is not None:
        ax = _axes(d, len(shapes[0]))
        if any(shapes[0][a] != 1 for a in ax):
            t.append("non_unit_dim_named")
    return t


BY_NAME = {o.name: o for o in OPS}
for _n in ("binary", "scalar_arith", "neg", "matmul", "addmm", "getitem", "concat", "stack", "unbind", "clone", "sum", "mean",
           "max", "min", "squeeze", "unsqueeze", "reshape", "movedim", "transpose", "flatten", "unfold_dim", "sqrt"):
    BY_NAME[_n].scales = (1.0, 1.0, 1.0, 128.0, 1.0 / 64)
# extreme but in-domain magnitudes for the ops whose derivative has no cancellation
for _n in ("sqrt", "neg", "clone", "sum", "getitem", "reshape", "transpose"):
    BY_NAME[_n].scales = BY_NAME[_n].scales + (2.0 ** -60, 2.0 ** 40)

# documented-argument predicates that need more than a lambda ---------------------------------
BY_NAME["squeeze"].documented = lambda a, s: True          # "dim (int or tuple, optional)"
BY_NAME["unsqueeze"].documented = lambda a, s: True        # "dim (int or tuple)"
# naming dim 0 / -1 of a 0-d tensor: torch accepts it, NumPy only for sum/max/min - not spelled out, accept-or-raise
# (likewise a NumPy integer where the docstring says int: accept-or-raise, never a different answer)
# (and dim=(): NumPy reduces over nothing, torch over everything - not spelled out either)
_dim_on_0d = lambda a, s: ((len(s[0]) == 0 and a.get("dim") is not None) or bool(a.get("np_int"))      # noqa: E731
                          or (isinstance(a.get("dim"), dict) and not a["dim"]["tuple"]))
BY_NAME["sum"].documented = lambda a, s: not _dim_on_0d(a, s)     # "dim (int or tuple, optional)"
BY_NAME["mean"].documented = lambda a, s: not _dim_on_0d(a, s)
BY_NAME["max"].documented = lambda a, s: not _dim_on_0d(a, s)
BY_NAME["min"].documented = lambda a, s: not _dim_on_0d(a, s)


# =============================================================================================
# common wrapper: dtype, requires-grad mask, upstream gradient pool, output index
# =============================================================================================
@st.composite
def full_case(draw, op, need_grad=True):
    c = draw(op.gen())
    c["op"] = op.name
    c["dtype"] = draw(gen.DTYPES)
    c["args"]["_dtype"] = c["dtype"]          # lets dtype-dependent generators (batch-norm offsets) stay consistent
    n = len(c["xs"])
    rg = [draw(st.booleans()) for _ in range(n)]
    if need_grad and not any(rg):
        rg[draw(st.integers(0, n - 1))] = True
    c["rg"] = rg
    c["g"] = draw(gen.upstream())
    c["gdtype"] = draw(st.sampled_from(["same", "same", "other"]))
    c["layout"] = draw(st.sampled_from(["C", "C", "C", "F", "strided", "neg_strided"]))
    c["param"] = [draw(st.sampled_from([False, False, True])) for _ in range(n)]   # operand is an nn.Parameter
    c["scale"] = draw(st.sampled_from(list(op.scales)))
    c["wrap"] = draw(st.booleans())
    c["twice"] = draw(st.sampled_from([False, False, False, True]))     # differentiate the same graph a second time
    c["refused_first"] = draw(st.integers(0, 5)) == 0
    c["extend"] = draw(st.integers(0, 3)) == 0     # grow the graph above the root, seed with the root's live .grad
    if op.multi:
        c["oi"] = draw(st.integers(0, 7))
    return c


def shapes_of(case):
    return [x["shape"] for x in case["xs"]]


def _layout(a, layout):
    """same values, different memory layout (the property quantifies over tensors, not over contiguity)"""
    if layout == "F" and a.ndim >= 2:
        return np.asfortranarray(a)
    if layout == "strided" and a.ndim >= 1:
        big = np.zeros(a.shape[:-1] + (2 * a.shape[-1],), dtype=a.dtype)
        big[..., ::2] = a
        return big[..., ::2]
    if layout == "neg_strided" and a.ndim >= 1:
        return np.ascontiguousarray(a[::-1])[::-1]
    return a


def leaves(case, dtype=None, rg=None):
    dt = np.dtype(dtype or case["dtype"])
    sc = case.get("scale", 1.0)
    out = []
    for i, x in enumerate(case["xs"]):
        a = _layout((gen.arr(x["v"], x["shape"], np.float64) * sc).astype(dt), case.get("layout", "C"))
        r = bool(rg[i]) if rg is not None else False
        t = Tensor(a, requires_grad=r)
        if case.get("param") and case["param"][i % len(case["param"])] and dt.kind == "f":
            t = sg.nn.Parameter(t)           # a Tensor subclass: must behave exactly like a Tensor operand
        out.append(t)
    return out


def arrays(case, dtype=np.float64):
    sc = case.get("scale", 1.0)
    return [(gen.arr(x["v"], x["shape"], np.float64) * sc).astype(dtype) for x in case["xs"]]


def pick(out, case):
    if isinstance(out, (tuple, list)):
        return out[case.get("oi", 0) % len(out)]
    return out
