"""Catalogue of the nn building blocks (synapgrad.nn.functional, layers, losses, activations) in the
same TOp form as synverif/ops.py: generator, synapgrad call, independent loop-based float64 reference.
Used by C02 (gradients), C06 (forward values), C10, C11."""
import numpy as np
from hypothesis import strategies as st

from . import gen, ref_conv as R
from .env import sg
from .ops import TOp, X

nn = sg.nn
F = sg.nn.functional
Tensor = sg.Tensor


def _t(a, dtype=None):
    return Tensor(np.asarray(a) if dtype is None else np.asarray(a, dtype=dtype))


# =============================================================================================
# activations
# =============================================================================================
ACT_MODULES = {"relu": lambda a: nn.ReLU(), "leaky_relu": lambda a: nn.LeakyReLU(a["slope"]) if "slope" in a else nn.LeakyReLU(),
               "selu": lambda a: nn.SELU(), "tanh": lambda a: nn.Tanh(), "sigmoid": lambda a: nn.Sigmoid()}
SELU_ALPHA = 1.6732632423543772848170429916717
SELU_SCALE = 1.0507009873554804934193349852946


@st.composite
def gen_act(draw, name):
    shp = draw(gen.shapes(0, 4, 100))
    kinked = name in ("relu", "leaky_relu", "selu")
    v = draw(gen.grid_away_from_zero(shp)) if kinked else draw(gen.grid(shp))
    args = {"form": draw(st.sampled_from(["fn", "module"]))}
    if name == "leaky_relu" and draw(st.integers(0, 4)) != 0:
        args["slope"] = draw(st.sampled_from([0.01, 0.2, 0.0, 1.0, 0.5, 1.5, 2.0, -0.5, -1.0]))
    return {"xs": [X(shp, v)], "args": args}


def _apply_act(name):
    def ap(ts, args):
        if args["form"] == "module":
            return ACT_MODULES[name](args)(ts[0])
        if name == "leaky_relu":
            return F.leaky_relu(ts[0], args["slope"]) if "slope" in args else F.leaky_relu(ts[0])
        return getattr(F, name)(ts[0])
    return ap


def _ref_act(name):
    def ref(xs, args):
        x = xs[0]
        if name == "relu":
            return np.where(x > 0, x, 0.0)
        if name == "leaky_relu":
            s = args.get("slope", 0.01)
            return np.where(x > 0, x, s * x)      # max(0,x) + slope*min(0,x)
        if name == "selu":
            return SELU_SCALE * np.where(x > 0, x, SELU_ALPHA * np.expm1(x))
        if name == "tanh":
            return np.tanh(x)
        if name == "sigmoid":
            return 1.0 / (1.0 + np.exp(-x))
    return ref


@st.composite
def gen_softmax(draw, levels=True):
    shp = draw(gen.shapes(1, 4, 60))
    nd = len(shp)
    v = draw(gen.grid(shp))
    if levels and draw(st.integers(0, 3)) == 0:
        # slices at very different levels (a per-element offset that is constant along no particular dim)
        n = len(v)
        lv = [draw(st.sampled_from([0.0, 0.0, 200.0, -200.0, 1000.0, -1000.0])) for _ in range(min(n, 6))]
        v = [x + lv[i % len(lv)] for i, x in enumerate(v)]
    return {"xs": [X(shp, v)],
            "args": {"dim": draw(st.integers(-nd, nd - 1)), "form": draw(st.sampled_from(["fn", "module"])),
                     # the module object was used before, on an input of another rank (a layer object is configuration,
                     # not state: what it computed earlier must not matter)
                     "reused": draw(st.booleans())}}


def used_before(module, shape, dtype):
    """call `module` once on an all-zero input with one more leading dimension; whatever happens there is not judged"""
    try:
        module(sg.Tensor(np.zeros([2] + list(shape), dtype=dtype)))
    except Exception:  # noqa: BLE001
        pass
    return module


def _apply_softmax(name):
    def ap(ts, args):
        if args["form"] == "module":
            m = (nn.Softmax if name == "softmax" else nn.LogSoftmax)(args["dim"])
            if args.get("reused"):
                used_before(m, ts[0].shape, ts[0].dtype)
            return m(ts[0])
        return getattr(F, name)(ts[0], args["dim"])
    return ap


def ref_softmax(xs, args):
    x = xs[0]
    d = args["dim"] % x.ndim
    xm = np.moveaxis(x, d, -1)
    out = np.empty_like(xm)
    for idx in np.ndindex(*xm.shape[:-1]):
        row = xm[idx]
        e = np.exp(row - row.max())
        out[idx] = e / e.sum()
    return np.moveaxis(out, -1, d)


def ref_log_softmax(xs, args):
    x = xs[0]
    d = args["dim"] % x.ndim
    xm = np.moveaxis(x, d, -1)
    out = np.empty_like(xm)
    for idx in np.ndindex(*xm.shape[:-1]):
        row = xm[idx]
        m = row.max()
        out[idx] = row - (m + np.log(np.exp(row - m).sum()))
    return np.moveaxis(out, -1, d)


def _softmax_tags(a, s):
    nd = len(s[0])
    t = []
    if nd != 2:
        t.append("rank_not_2")
    if a["dim"] % nd != 1 or nd != 2:
        t.append("dim_not_1_of_2d")
    if a["dim"] < 0:
        t.append("negative_dim")
    return t


# =============================================================================================
# losses
# =============================================================================================
LOSS_MODULES = {"mse": "MSELoss", "nll": "NLLLoss", "bce": "BCELoss", "bce_logits": "BCEWithLogitsLoss",
                "ce": "CrossEntropyLoss"}
LOSS_FNS = {"mse": "mse_loss", "nll": "nll_loss", "bce": "binary_cross_entropy",
            "bce_logits": "binary_cross_entropy_with_logits", "ce": "cross_entropy"}


@st.composite
def gen_loss(draw, name):
    args = {"form": draw(st.sampled_from(["fn", "module", "module"]))}
    if args["form"] == "module":
        args["reduction"] = draw(st.sampled_from(["mean", "sum", "none"]))
        if args["reduction"] == "mean" and draw(st.booleans()):
            args["default_reduction"] = True
        elif draw(st.integers(0, 3)) == 0:
            args["reduction_set_later"] = True
    if name in ("nll", "ce"):
        n, c = draw(st.sampled_from([1, 2, 3, 4, 5, 5, 130, 300])), draw(st.integers(1, 5))
        if n > 5:
            c = min(c, 2)
        shp = [n, c]
        lab_pat = [draw(st.integers(0, c - 1)) for _ in range(min(n, 7))]
        args["labels"] = [lab_pat[(j * j + j) % len(lab_pat)] for j in range(n)]
        args["label_dtype"] = draw(st.sampled_from(["int64", "int32", "int8", "uint8", "int16"]))
        if draw(st.integers(0, 5)) == 0:
            # class indices counted from the end (-1 .. -c): not documented, but where the forward accepts them the
            # backward must differentiate what the forward computed
            args["labels"] = [l - c if (j % 2 == 0) else l for j, l in enumerate(args["labels"])]
            args["label_dtype"] = "int64"
            args["neg_labels"] = True
        v = draw(gen.grid([min(n, 7), c]))
        v = [v[((j % min(n, 7)) * c + q)] for j in range(n) for q in range(c)]
        if name == "ce" and draw(st.integers(0, 3)) == 0:
            # rows at very different levels (cross-entropy is shift-invariant per row)
            lv = [draw(st.sampled_from([0.0, 200.0, -200.0, 1000.0])) for _ in range(min(n, 5))]
            v = [x + lv[(j // c) % len(lv)] for j, x in enumerate(v)]
            args["levels"] = True
        return {"xs": [X(shp, v)], "args": args}
    shp = draw(gen.shapes(0, 3, 60))
    if name == "mse":
        return {"xs": [X(shp, draw(gen.grid(shp))), X(shp, draw(gen.grid(shp)))], "args": args}
    n = 1
    for s in shp:
        n *= s
    if name == "bce":
        v = [k / 20.0 for k in draw(st.lists(st.integers(1, 19), min_size=n, max_size=n))]
    else:
        v = draw(gen.grid(shp))
    hard = draw(st.booleans())
    args["target"] = [float(draw(st.sampled_from([0, 1]))) if hard else draw(st.integers(0, 8)) / 8.0 for _ in range(n)]
    return {"xs": [X(shp, v)], "args": args}


def _apply_loss(name):
    def ap(ts, args):
        pred = ts[0]
        if name == "mse":
            tgt = ts[1]
        elif name in ("nll", "ce"):
            tgt = Tensor(np.array(args["labels"], dtype=args["label_dtype"]))
        else:
            tgt = Tensor(np.array(args["target"], dtype=pred.dtype).reshape(pred.shape))
        if args["form"] == "fn":
            return getattr(F, LOSS_FNS[name])(pred, tgt)
        cls = getattr(nn, LOSS_MODULES[name])
        m = cls() if args.get("default_reduction") else cls(reduction=args["reduction"])
        if args.get("reduction_set_later"):
            # built with another reduction; the attribute is assigned afterwards (the criterion reads it when called)
            m = cls(reduction={"mean": "sum", "sum": "none", "none": "mean"}[args["reduction"]])
            m.reduction = "".join(list(args["reduction"]))
        return m(pred, tgt)
    return ap


def _ref_loss(name):
    def ref(xs, args):
        p = xs[0]
        if name == "mse":
            per = (p - xs[1]) ** 2
        elif name == "nll":
            per = np.array([-p[i, l] for i, l in enumerate(args["labels"])])
        elif name == "ce":
            per = np.empty(p.shape[0])
            for i, l in enumerate(args["labels"]):
                row = p[i]
                m = row.max()
                per[i] = -(row[l] - (m + np.log(np.exp(row - m).sum())))
        elif name == "bce":
            y = np.array(args["target"], dtype=np.float64).reshape(p.shape)
            per = -(y * np.maximum(np.log(p), -100.0) + (1 - y) * np.maximum(np.log1p(-p), -100.0))
        elif name == "bce_logits":
            y = np.array(args["target"], dtype=np.float64).reshape(p.shape)
            per = np.maximum(p, 0) - p * y + np.log1p(np.exp(-np.abs(p)))
        red = args.get("reduction", "none") if args["form"] == "module" else "none"
        if red == "mean":
            return np.asarray(per.sum() / per.size)
        if red == "sum":
            return np.asarray(per.sum())
        return per
    return ref


def _loss_nt(a, s):
    return a["form"] == "module" and a.get("reduction") != "mean" or len(s) == 2


def _loss_tags(a, s):
    if a.get("neg_labels"):
        return _loss_tags_({k: v for k, v in a.items() if k != "neg_labels"}, s) + ["labels_counted_from_the_end"]
    return _loss_tags_(a, s)


def _loss_tags_(a, s):
    return [a["form"]] + (["reduction_" + a["reduction"]] if "reduction" in a else [])


# =============================================================================================
# linear
# =============================================================================================
@st.composite
def gen_linear(draw):
    fin, fout = draw(st.integers(1, 4)), draw(st.integers(1, 4))
    form = draw(st.sampled_from(["fn", "fn", "module"]))
    lead = draw(gen.shapes(1, 1 if form == "module" else 3, 12))
    bias = draw(st.booleans())
    wide = bias and form == "fn" and draw(st.integers(0, 2)) == 0
    if wide:
        lead = [draw(st.integers(2, 3)) for _ in range(draw(st.sampled_from([2, 2, 3])))]      # batched input, several positions
    xs = [X(lead + [fin], draw(gen.grid(lead + [fin], -16, 16))), X([fout, fin], draw(gen.grid([fout, fin], -16, 16)))]
    args = {"form": form, "bias": bias, "neuron": draw(st.booleans())}
    if bias:
        bshape = [fout]
        if wide:
            # x @ W.T + b with a bias of higher rank (one row per position, or full): not spelled out for F.linear, but
            # wherever it is accepted it is the same broadcasting sum
            bshape = draw(st.sampled_from([[1, fout], lead[-1:] + [fout], lead[-1:] + [fout], lead + [fout], [lead[-2], 1, fout]]))
            args["wide_bias"] = True
        xs.append(X(bshape, draw(gen.grid(bshape, -16, 16))))
    return {"xs": xs, "args": args}


def apply_linear(ts, args):
    b = ts[2] if args["bias"] else None
    if args["form"] == "module":
        if ts[1].shape[0] == 1 and args.get("neuron"):
            m = nn.Neuron(ts[1].shape[1], bias=args["bias"])
            if (m.bias is None) != (not args["bias"]):
                raise AssertionError("Neuron(bias=...) does not match the requested bias setting")
        else:
            m = nn.Linear(ts[1].shape[1], ts[1].shape[0], bias=args["bias"])
        m.weight = ts[1]
        if args["bias"]:
            m.bias = b
        return m(ts[0])
    if not args["bias"] and args.get("omit_bias", True):
        return F.linear(ts[0], ts[1])
    return F.linear(ts[0], ts[1], b)


def ref_linear(xs, args):
    x, w = xs[0], xs[1]
    out = np.zeros(x.shape[:-1] + (w.shape[0],))
    for idx in np.ndindex(*x.shape[:-1]):
        for o in range(w.shape[0]):
            out[idx + (o,)] = float(np.dot(x[idx], w[o])) + (xs[2][o] if args["bias"] and not args.get("wide_bias") else 0.0)
    if args["bias"] and args.get("wide_bias"):
        out = out + xs[2]
    return out


# =============================================================================================
# conv / pool / unfold / fold
# =============================================================================================
def _fix_pool_axis(a):
    """reduce padding until every window contains a real element (pooling domain)"""
    span = a["d"] * (a["k"] - 1) + 1
    while a["p"] > 0 and not R.every_window_has_real(a["L"], a["k"], a["s"], a["p"], a["d"]):
        a["p"] -= 1
        a["L"] = max(a["L"], span - 2 * a["p"])
    return a


@st.composite
def gen_conv(draw, dims):
    N = draw(st.integers(1, 2)); Ci = draw(st.integers(1, 2)); Co = draw(st.integers(1, 3))
    ax = [draw(gen.axis_geom(kmax=3, smax=3, dmax=2, pmax=3, extra_max=2)) for _ in range(dims)]
    xs_shape = [N, Ci] + [a["L"] for a in ax]
    w_shape = [Co, Ci] + [a["k"] for a in ax]
    xs = [X(xs_shape, draw(gen.grid(xs_shape, -16, 16))), X(w_shape, draw(gen.grid(w_shape, -16, 16)))]
    bias = draw(st.booleans())
    if bias:
        xs.append(X([Co], draw(gen.grid([Co], -16, 16))))
    args = {"bias": bias, "form": draw(st.sampled_from(["fn", "module"]))}
    for key in "spd":
        vals = [a[key] for a in ax]
        if dims == 1:
            args[key] = vals[0]
        else:
            args[key] = gen.spell(draw, vals[0], vals[1], kinds=("int", "tuple", "list"))
    if all(a["s"] == 1 for a in ax) and draw(st.booleans()):
        args["default_stride"] = True
    return {"xs": xs, "args": args}


def _geo(args, key):
    return gen.realize(args[key])


def _apply_conv(dims):
    def ap(ts, args):
        b = ts[2] if args["bias"] else None
        s, p, d = _geo(args, "s"), _geo(args, "p"), _geo(args, "d")
        w = ts[1]
        if args["form"] == "module":
            cls = nn.Conv1d if dims == 1 else nn.Conv2d
            k = w.shape[2] if dims == 1 else (w.shape[2], w.shape[3])
            if args.get("default_stride"):
                m = cls(w.shape[1], w.shape[0], k, padding=p, dilation=d, bias=args["bias"])
            else:
                m = cls(w.shape[1], w.shape[0], k, s, p, d, bias=args["bias"])
            m.weight = w
            if args["bias"]:
                m.bias = b
            return m(ts[0])
        fn = F.conv1d if dims == 1 else F.conv2d
        if args.get("default_stride"):
            return fn(ts[0], w, b, padding=p, dilation=d)
        return fn(ts[0], w, b, s, p, d)
    return ap


def _ref_conv(dims):
    def ref(xs, args):
        b = xs[2] if args["bias"] else None
        s, p, d = _geo(args, "s"), _geo(args, "p"), _geo(args, "d")
        if dims == 1:
            return R.conv1d_ref(xs[0], xs[1], b, s, p, d)
        return R.conv2d_ref(xs[0], xs[1], b, s, p, d)
    return ref


def _geom_feats(args, shapes, dims, kshape=None):
    """non-default configuration: stride/padding/dilation not all default, non-square, non-tiling"""
    def both(v):
        v = gen.realize(v)
        return [int(v)] * dims if not isinstance(v, (list, tuple, np.ndarray)) else [int(q) for q in v]
    s, p, d = both(args["s"]), both(args["p"]), both(args["d"])
    k = kshape if kshape is not None else both(args["k"])
    L = list(shapes[0][2:])
    t = []
    if any(v > 1 for v in s):
        t.append("stride>1")
    if any(v > 0 for v in p):
        t.append("padding>0")
    if any(v > 1 for v in d):
        t.append("dilation>1")
    if dims == 2 and (k[0] != k[1] or L[0] != L[1]):
        t.append("non_square")
    if any(si > ki for si, ki in zip(s, k)):
        t.append("stride>kernel")
    if any((Li + 2 * pi - (di * (ki - 1) + 1)) % si != 0 for Li, pi, di, ki, si in zip(L, p, d, k, s)):
        t.append("non_tiling")
    return t


def _conv_tags(dims):
    def f(a, s):
        return _geom_feats(a, s, dims, kshape=list(s[1][2:])) + (["bias"] if a["bias"] else ["no_bias"]) + [a["form"]]
    return f


@st.composite
def gen_pool(draw, dims, mode):
    N = draw(st.integers(1, 2)); C = draw(st.integers(1, 3))
    ax = [_fix_pool_axis(draw(gen.axis_geom(kmax=3, smax=4, dmax=2, pmax=2, extra_max=3, pad_half=True)))
          for _ in range(dims)]
    shp = [N, C] + [a["L"] for a in ax]
    v = draw(gen.distinct(shp)) if mode == "max" else draw(gen.grid(shp, -16, 16))
    args = {"form": draw(st.sampled_from(["fn", "module"]))}
    for key in "kspd":
        vals = [a[key] for a in ax]
        args[key] = vals[0] if dims == 1 else gen.spell(draw, vals[0], vals[1])
    if all(a["s"] == a["k"] for a in ax) and draw(st.booleans()):
        args["default_stride"] = True
    return {"xs": [X(shp, v)], "args": args}


def _apply_pool(dims, mode):
    fname = f"{mode}_pool{dims}d"
    cname = f"{'Max' if mode == 'max' else 'Avg'}Pool{dims}d"

    def ap(ts, args):
        k, s, p, d = (_geo(args, q) for q in "kspd")
        if args["form"] == "module":
            m = getattr(nn, cname)(k, padding=p, dilation=d) if args.get("default_stride") else getattr(nn, cname)(k, s, p, d)
            return m(ts[0])
        if args.get("default_stride"):
            return getattr(F, fname)(ts[0], k, padding=p, dilation=d)
        return getattr(F, fname)(ts[0], k, s, p, d)
    return ap


def _ref_pool(dims, mode):
    def ref(xs, args):
        k, s, p, d = (_geo(args, q) for q in "kspd")
        if dims == 1:
            return R.pool1d_ref(xs[0], k, s, p, d, mode)
        return R.pool2d_ref(xs[0], k, s, p, d, mode)
    return ref


@st.composite
def gen_unfold(draw):
    N = draw(st.integers(1, 2)); C = draw(st.integers(1, 3))
    ax = [draw(gen.axis_geom(kmax=3, smax=3, dmax=2, pmax=2, extra_max=2)) for _ in range(2)]
    shp = [N, C] + [a["L"] for a in ax]
    args = {"form": draw(st.sampled_from(["fn", "module"])), "pad_value": draw(st.sampled_from([0, 0, 1.5, -2.0]))}
    for key in "kspd":
        args[key] = gen.spell(draw, ax[0][key], ax[1][key])
    return {"xs": [X(shp, draw(gen.grid(shp, -16, 16)))], "args": args}


def apply_unfold(ts, args):
    k, s, p, d = (_geo(args, q) for q in "kspd")
    if args["form"] == "module":
        return nn.Unfold(k, s, p, d, args["pad_value"])(ts[0])
    return F.unfold(ts[0], k, d, s, p, args["pad_value"])


def ref_unfold(xs, args):
    k, s, p, d = (_geo(args, q) for q in "kspd")
    return R.unfold_ref(xs[0], k, d, s, p, args["pad_value"])


@st.composite
def gen_fold(draw):
    N = draw(st.integers(1, 2)); C = draw(st.integers(1, 2))
    ax = [draw(gen.axis_geom(kmax=3, smax=3, dmax=2, pmax=2, extra_max=2)) for _ in range(2)]
    H, W = ax[0]["L"], ax[1]["L"]
    lh = R.out_len(H, ax[0]["k"], ax[0]["s"], ax[0]["p"], ax[0]["d"])
    lw = R.out_len(W, ax[1]["k"], ax[1]["s"], ax[1]["p"], ax[1]["d"])
    shp = [N, C * ax[0]["k"] * ax[1]["k"], lh * lw]
    args = {"form": draw(st.sampled_from(["fn", "module"])), "out": [H, W],
            "out_as": draw(st.sampled_from(["tuple", "list"]))}
    for key in "kspd":
        args[key] = gen.spell(draw, ax[0][key], ax[1][key])
    return {"xs": [X(shp, draw(gen.grid(shp, -16, 16)))], "args": args}


def apply_fold(ts, args):
    k, s, p, d = (_geo(args, q) for q in "kspd")
    out = tuple(args["out"]) if args["out_as"] == "tuple" else list(args["out"])
    if args["form"] == "module":
        return nn.Fold(out, k, s, p, d)(ts[0])
    return F.fold(ts[0], out, k, d, s, p)


def ref_fold(xs, args):
    k, s, p, d = (_geo(args, q) for q in "kspd")
    return R.fold_ref(xs[0], tuple(args["out"]), k, d, s, p)


def _fold_tags(a, s):
    kk = gen.realize(a["k"])
    kk = [kk, kk] if isinstance(kk, int) else list(kk)
    C = s[0][1] // (kk[0] * kk[1])
    fake = [[s[0][0], C] + list(a["out"])]
    return _geom_feats(a, fake, 2)


# =============================================================================================
# batch norm
# =============================================================================================
LAST = {}     # the running-statistic tensors created by the most recent batch-norm call (for C11)

@st.composite
def gen_batch_norm(draw):
    form = draw(st.sampled_from(["fn", "fn", "module"]))
    C = draw(st.integers(1, 3))
    N = draw(st.integers(2, 4))
    extra = draw(st.sampled_from([[], [], [2], [3], [2, 2], [1, 3], [2, 1, 2], [1, 2, 2, 1]]))
    shp = [N, C] + extra
    training = draw(st.booleans())
    stats = draw(st.booleans())
    if form == "module":
        affine = draw(st.booleans())
        has_w = has_b = affine
    else:
        has_w, has_b = draw(st.booleans()), draw(st.booleans())
    xs = [X(shp, draw(gen.distinct(shp)))]
    if has_w:
        xs.append(X([C], draw(gen.grid_away_from_zero([C], 2, 16))))
    if has_b:
        xs.append(X([C], draw(gen.grid([C], -16, 16))))
    args = {"form": form, "training": training, "stats": stats, "has_w": has_w, "has_b": has_b,
            "eps": draw(st.sampled_from([1e-5, 1e-3, 0.1])),
            "momentum": draw(st.sampled_from([0.1, 0.5, 1.0, 0.01, 0.0]))}
    args["offset"] = [draw(st.sampled_from([0, 0, 0, 1, -1])) for _ in range(C)]
    # another (training-mode) call on the same layer / buffers between this call and its backward
    args["interleave"] = draw(st.sampled_from([False, False, True]))
    if stats:
        args["rm"] = [draw(st.integers(-16, 16)) / 8.0 for _ in range(C)]
        args["rv"] = [draw(st.integers(2, 40)) / 8.0 for _ in range(C)]
    return {"xs": xs, "args": args}


def _bn_offset(args, x_shape, dtype):
    """per-channel offset (exactly representable together with the k/8 grid): data whose mean is far from its spread"""
    if not any(args.get("offset", [])):
        return None
    # only float64 can separate a sound two-pass variance from a cancelling one at the comparison tolerance
    if np.dtype(dtype) != np.float64:
        return None
    big = 1.0e3
    off = np.array(args["offset"], dtype=np.float64) * big
    return off.reshape([1, len(off)] + [1] * (len(x_shape) - 2))


def apply_batch_norm(ts, args):
    x = ts[0]
    off = _bn_offset(args, x.shape, args.get("_dtype", str(x.dtype)))
    if off is not None:
        x = x + Tensor(off.astype(x.dtype))
    i = 1
    w = b = None
    if args["has_w"]:
        w = ts[i]; i += 1
    if args["has_b"]:
        b = ts[i]; i += 1
    dt = x.dtype
    rm = Tensor(np.array(args["rm"], dtype=dt)) if args["stats"] else None
    rv = Tensor(np.array(args["rv"], dtype=dt)) if args["stats"] else None
    LAST["bn_buffers"] = (rm, rv)
    other = Tensor((np.arange(x.data.size, dtype=np.float64).reshape(x.shape) % 5 - 1.5).astype(dt))
    if args["form"] == "fn":
        out = F.batch_norm(x, w, b, rm, rv, args["training"], args["momentum"], args["eps"])
        if args.get("interleave"):
            F.batch_norm(other, w, b, rm, rv, True, args["momentum"], args["eps"])
        return out
    cls = nn.BatchNorm2d if x.ndim >= 4 else nn.BatchNorm1d
    m = cls(x.shape[1], eps=args["eps"], momentum=args["momentum"], affine=args["has_w"],
            track_running_stats=args["stats"], dtype=dt.type)
    if args["has_w"]:
        m.weight = w
        m.bias = b
    if args["stats"]:
        m.running_mean = rm
        m.running_var = rv
    if not args["training"]:
        m.eval()
    out = m(x)
    if args.get("interleave"):
        m.train()
        m(other)
    return out


def ref_batch_norm(xs, args):
    x = xs[0]
    off = _bn_offset(args, x.shape, args.get("_dtype", "float64"))
    if off is not None:
        x = x + off
    i = 1
    w = b = None
    if args["has_w"]:
        w = xs[i]; i += 1
    if args["has_b"]:
        b = xs[i]; i += 1
    C = x.shape[1]
    out = np.empty_like(x)
    use_batch = args["training"] or not args["stats"]
    for c in range(C):
        xc = x[:, c]
        if use_batch:
            m = xc.sum() / xc.size
            v = ((xc - m) ** 2).sum() / xc.size          # biased
        else:
            m, v = args["rm"][c], args["rv"][c]
        y = (xc - m) / np.sqrt(v + args["eps"])
        if w is not None:
            y = y * w[c]
        if b is not None:
            y = y + b[c]
        out[:, c] = y
    return out


def _bn_tags(a, s):
    t = (["offset_data"] if any(a.get("offset", [])) else []) + (["interleaved_call"] if a.get("interleave") else []) + ["training" if a["training"] else "eval", "stats" if a["stats"] else "no_stats",
         "affine" if a["has_w"] and a["has_b"] else ("no_affine" if not a["has_w"] and not a["has_b"] else "partial_affine"),
         "rank_%d" % len(s[0]), a["form"]]
    return t


def _bn_nt(a, s):
    return (not a["training"] and a["stats"]) or len(s[0]) != 2 or not (a["has_w"] and a["has_b"])


# =============================================================================================
# dropout / flatten layer
# =============================================================================================
@st.composite
def gen_dropout(draw):
    shp = draw(gen.shapes(0, 4, 100))
    return {"xs": [X(shp, draw(gen.grid_away_from_zero(shp)))],
            "args": {"p": draw(st.sampled_from([0.0, 0.1, 0.25, 0.5, 0.75, 0.9])), "training": draw(st.sampled_from([True, True, False])),
                     "seed": draw(st.integers(0, 2 ** 31 - 1))}}


def apply_dropout(ts, args):
    m = nn.Dropout(args["p"])
    if not args["training"]:
        m.eval()
    sg.manual_seed(args["seed"])
    return m(ts[0])


@st.composite
def gen_flatten_layer(draw):
    shp = draw(gen.shapes(2, 4, 100))
    args = {}
    if draw(st.booleans()):
        nd = len(shp)
        s = draw(st.integers(0, nd - 1)); e = draw(st.integers(s, nd - 1))
        args = {"start": s, "end": e if draw(st.booleans()) else e - nd}
    args["reused"] = draw(st.booleans())
    return {"xs": [X(shp, draw(gen.grid(shp)))], "args": args}


def apply_flatten_layer(ts, args):
    m = nn.Flatten(args["start"], args["end"]) if "start" in args else nn.Flatten()
    if args.get("reused"):
        used_before(m, ts[0].shape, ts[0].dtype)
    return m(ts[0])


def ref_flatten_layer(xs, args):
    x = xs[0]
    s, e = (args["start"], args["end"] % x.ndim) if "start" in args else (1, x.ndim - 1)
    return x.reshape(list(x.shape[:s]) + [-1] + list(x.shape[e + 1:]))


# =============================================================================================
# catalogue
# =============================================================================================
def _act_op(name):
    return TOp(name, (lambda name=name: gen_act(name)), _apply_act(name), _ref_act(name),
               nt=lambda a, s: a["form"] == "module" or "slope" in a or len(s[0]) in (0, 3, 4),
               tags=lambda a, s: [a["form"]] + (["slope>1"] if a.get("slope", 0) > 1 else []) + (["slope<0"] if a.get("slope", 0) < 0 else []))


def _loss_op(name):
    return TOp("loss_" + name, (lambda name=name: gen_loss(name)), _apply_loss(name), _ref_loss(name),
               nt=_loss_nt, tags=_loss_tags, documented=lambda a, s: not a.get("neg_labels"))


OPS = [
    _act_op("relu"), _act_op("leaky_relu"), _act_op("selu"), _act_op("tanh"), _act_op("sigmoid"),
    TOp("softmax", gen_softmax, _apply_softmax("softmax"), ref_softmax,
        nt=lambda a, s: "dim_not_1_of_2d" in _softmax_tags(a, s), tags=_softmax_tags),
    TOp("log_softmax", gen_softmax, _apply_softmax("log_softmax"), ref_log_softmax,
        nt=lambda a, s: "dim_not_1_of_2d" in _softmax_tags(a, s), tags=_softmax_tags),
    _loss_op("mse"), _loss_op("nll"), _loss_op("bce"), _loss_op("bce_logits"), _loss_op("ce"),
    TOp("linear", gen_linear, apply_linear, ref_linear,
        nt=lambda a, s: len(s[0]) != 2 or not a["bias"],
        tags=lambda a, s: ["rank_%d" % len(s[0]), "bias" if a["bias"] else "no_bias", a["form"]] + (["bias_of_higher_rank"] if a.get("wide_bias") else []),
        documented=lambda a, s: not a.get("wide_bias")),
    TOp("conv1d", lambda: gen_conv(1), _apply_conv(1), _ref_conv(1),
        nt=lambda a, s: len(_geom_feats(a, s, 1, list(s[1][2:]))) > 0, tags=_conv_tags(1)),
    TOp("conv2d", lambda: gen_conv(2), _apply_conv(2), _ref_conv(2),
        nt=lambda a, s: len(_geom_feats(a, s, 2, list(s[1][2:]))) > 0, tags=_conv_tags(2)),
    TOp("max_pool1d", lambda: gen_pool(1, "max"), _apply_pool(1, "max"), _ref_pool(1, "max"), exact=True,
        nt=lambda a, s: len(_geom_feats(a, s, 1)) > 0, tags=lambda a, s: _geom_feats(a, s, 1) + [a["form"]]),
    TOp("max_pool2d", lambda: gen_pool(2, "max"), _apply_pool(2, "max"), _ref_pool(2, "max"), exact=True,
        nt=lambda a, s: len(_geom_feats(a, s, 2)) > 0, tags=lambda a, s: _geom_feats(a, s, 2) + [a["form"]]),
    TOp("avg_pool1d", lambda: gen_pool(1, "avg"), _apply_pool(1, "avg"), _ref_pool(1, "avg"),
        nt=lambda a, s: len(_geom_feats(a, s, 1)) > 0, tags=lambda a, s: _geom_feats(a, s, 1) + [a["form"]]),
    TOp("avg_pool2d", lambda: gen_pool(2, "avg"), _apply_pool(2, "avg"), _ref_pool(2, "avg"),
        nt=lambda a, s: len(_geom_feats(a, s, 2)) > 0, tags=lambda a, s: _geom_feats(a, s, 2) + [a["form"]]),
    TOp("unfold", gen_unfold, apply_unfold, ref_unfold, exact=True,
        nt=lambda a, s: len(_geom_feats(a, s, 2)) > 0,
        tags=lambda a, s: _geom_feats(a, s, 2) + [a["form"]] + (["pad_value"] if a["pad_value"] else [])),
    TOp("fold", gen_fold, apply_fold, ref_fold,
        nt=lambda a, s: len(_fold_tags(a, s)) > 0, tags=lambda a, s: _fold_tags(a, s) + [a["form"]]),
    TOp("batch_norm", gen_batch_norm, apply_batch_norm, ref_batch_norm, nt=_bn_nt, tags=_bn_tags),
    TOp("flatten_layer", gen_flatten_layer, apply_flatten_layer, ref_flatten_layer, exact=True,
        nt=lambda a, s: "start" in a, tags=lambda a, s: ["custom_dims"] if "start" in a else ["default"]),
]
# dropout has no deterministic reference for its mask: gradient (C02) and C13 only
DROPOUT = TOp("dropout", gen_dropout, apply_dropout, None,
              nt=lambda a, s: a["training"] and 0 < a["p"] < 1,
              tags=lambda a, s: ["training" if a["training"] else "eval", "p=%g" % a["p"]])

BY_NAME = {o.name: o for o in OPS + [DROPOUT]}
# finite differences through data that sits 1e4 away from its spread need a larger step (noise ~ ulp(1e4)/h)
BY_NAME["batch_norm"].fd_hscale = lambda a: 10.0 if any(a.get("offset", [])) and a.get("_dtype") == "float64" else 1.0
for _n in ("relu", "leaky_relu", "linear", "conv1d", "conv2d", "max_pool1d", "max_pool2d", "avg_pool1d", "avg_pool2d", "unfold",
           "fold", "loss_mse", "flatten_layer", "dropout", "batch_norm"):
    BY_NAME[_n].scales = (1.0, 1.0, 1.0, 128.0, 1.0 / 64)
