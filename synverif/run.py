"""CLI:  python -m synverif.run <ID> quick|thorough [--only sub1,sub2] [--jobs N]
          python -m synverif.run --replay <path>
          python -m synverif.run --list <ID>

Exit codes: 0 held on everything explored; 1 with `VIOLATION property=<id> replay=<path>` lines;
2 harness problem (never a verdict)."""
import argparse
import importlib
import json
import multiprocessing as mp
import os
import sys
import time

VERIF = os.path.realpath(os.path.join(os.path.dirname(os.path.abspath(__file__)), ".."))


def _load(prop_id):
    from . import env  # noqa: F401  (imports synapgrad from the tree under test)
    mod = importlib.import_module(f"synverif.props.{prop_id.lower()}")
    subs = {s.name: s for s in mod.subchecks()}
    return mod, subs


class _TaskTimeout(Exception):
    pass


def _task(args):
    prop_id, sub_name, tier, seed, shard, nshards, known_sigs, budget = args
    import signal
    limit = int(os.environ.get("VERIF_TASK_TIMEOUT", "600" if tier == "quick" else "5400"))

    def _alarm(signum, frame):
        signal.alarm(5)     # keep interrupting whatever is retried after the first expiry
        raise _TaskTimeout(f"task exceeded its wall-clock guard of {limit}s (inconclusive, not a verdict)")
    try:
        signal.signal(signal.SIGALRM, _alarm)
        signal.alarm(limit)
    except Exception:  # noqa: BLE001
        pass
    try:
        return _task_inner(args)
    finally:
        try:
            signal.alarm(0)
        except Exception:  # noqa: BLE001
            pass


def _task_inner(args):
    prop_id, sub_name, tier, seed, shard, nshards, known_sigs, budget = args
    try:
        from . import core
        mod, subs = _load(prop_id)
        return core.run_subcheck(prop_id, subs[sub_name], tier, seed, shard, nshards,
                                 set(known_sigs), budget)
    except Exception as e:  # noqa: BLE001
        import traceback
        return {"sub": sub_name, "shard": shard, "evaluations": 0, "nontrivial_hashes": set(),
                "tags": {}, "skips": {}, "samples": [], "violations": [], "known_hits": {},
                "error": f"{type(e).__name__}: {e}\n{traceback.format_exc()[-3000:]}",
                "exhaustive": False, "wall_s": 0.0}


def _child_main(task, conn):
    try:
        conn.send(_task(task))
    finally:
        conn.close()


def _crashed(task, exitcode):
    return {"sub": task[1], "shard": task[4], "evaluations": 0, "nontrivial_hashes": set(), "tags": {}, "skips": {},
            "samples": [], "violations": [], "known_hits": {}, "exhaustive": False, "wall_s": 0.0,
            "error": f"worker process died without a result (exit code {exitcode}; a negative value is a signal, e.g. -11 = "
                     f"SIGSEGV in native code reached from the code under test) - inconclusive, not a verdict"}


def _run_tasks(tasks, jobs):
    """One forked process per task, at most `jobs` at a time.  Unlike multiprocessing.Pool this survives a worker
    that is killed (segmentation fault in native code, out-of-memory): the task is reported as a harness error."""
    from multiprocessing.connection import wait
    ctx = mp.get_context("fork")
    pending = list(tasks)[::-1]
    running = {}
    results = []
    while pending or running:
        while pending and len(running) < jobs:
            t = pending.pop()
            parent, child = ctx.Pipe(duplex=False)
            p = ctx.Process(target=_child_main, args=(t, child))
            p.start()
            child.close()
            running[parent] = (p, t)
        ready = wait(list(running.keys()), timeout=2.0)
        for conn in ready:
            p, t = running.pop(conn)
            try:
                results.append(conn.recv())
            except (EOFError, OSError):
                p.join(5)
                results.append(_crashed(t, p.exitcode))
            conn.close()
            p.join(5)
        for conn, (p, t) in list(running.items()):
            if not p.is_alive() and not conn.poll():
                running.pop(conn)
                results.append(_crashed(t, p.exitcode))
                conn.close()
    return results


def replay(path):
    from . import core
    blob = json.load(open(path))
    prop_id = blob["property"]
    mod, subs = _load(prop_id)
    sub = subs[blob["subcheck"]]
    rec = core.Rec()
    try:
        sub.check(blob["case"], rec)
    except core.Violation as v:
        sig = core.signature(sub.name, v)
        print(f"replay {path}: FAILS sig={sig}\n  {v.detail[:1500]}")
        print(f"VIOLATION property={prop_id} replay={path}")
        return 1, sig
    print(f"replay {path}: passes")
    return 0, None


def run_property(prop_id, tier, only=None, jobs=None):
    from . import core
    t0 = time.time()
    seed = int(os.environ.get("VERIF_SEED", "1"))
    mod, subs = _load(prop_id)
    known = core.load_known_findings(VERIF).get(prop_id, [])
    known_sigs = [k["sig"] for k in known]
    names = [n for n in subs if (only is None or n in only)]
    tasks = []
    for n in names:
        s = subs[n]
        ns = s.shards_quick if tier == "quick" else s.shards_thorough
        for sh in range(ns if tier != "fuzz" else 0):
            tasks.append((prop_id, n, tier, seed, sh, ns, known_sigs, None))
    jobs = jobs or int(os.environ.get("VERIF_JOBS", "16"))
    if jobs == 1 or len(tasks) == 1:
        results = [_task(t) for t in tasks]
    else:
        results = _run_tasks(tasks, min(jobs, len(tasks))) if tasks else []

    # ---- coverage-guided stage (thorough tier; `./check <ID> fuzz` runs it alone) ------------------
    fuzz_info = None
    if tier in ("thorough", "fuzz") and os.environ.get("VERIF_FUZZ", "1") != "0":
        from . import fuzzstage
        if fuzzstage.available():
            fr = fuzzstage.run(prop_id, subs, names, seed, known_sigs, jobs,
                               int(os.environ.get("VERIF_FUZZ_EXECS", "3000")), int(os.environ.get("VERIF_FUZZ_SECONDS", "60")))
            results += fr
            fuzz_info = {"engine": "atheris (libFuzzer) -> Hypothesis fuzz_one_input -> the sub-check's strategy and oracle",
                         "instrumented": "synapgrad (branch coverage feedback)",
                         "per_subcheck": {r["sub"]: r["fuzz"] for r in fr},
                         "evaluations": sum(r["fuzz"]["evaluations"] for r in fr)}
        else:
            fuzz_info = {"skipped": "atheris could not be installed from the offline wheelhouse"}

    # ---- regression corpus: every committed replay of this property must pass ------------------
    status = 0
    lines = []
    corpus_dir = os.path.join(VERIF, "replays", prop_id)
    known_replays = {os.path.normpath(k["replay"]) for k in known}
    corpus_checked = 0
    violations = []
    if os.path.isdir(corpus_dir) and only is None:
        for fn in sorted(os.listdir(corpus_dir)):
            rel = os.path.normpath(os.path.join("replays", prop_id, fn))
            if not fn.endswith(".json") or rel in known_replays:
                continue
            blob = json.load(open(os.path.join(corpus_dir, fn)))
            sub = subs.get(blob["subcheck"])
            if sub is None:
                continue
            corpus_checked += 1
            try:
                sub.check(blob["case"], core.Rec())
            except core.Violation as v:
                sig = core.signature(sub.name, v)
                if sig in known_sigs:
                    continue
                violations.append({"sig": sig, "path": os.path.join(corpus_dir, fn),
                                   "detail": v.detail})

    # ---- known findings: replay each, print KNOWN-FINDING when it still reproduces -----------
    known_report = []
    for k in known:
        p = os.path.join(VERIF, k["replay"])
        still = False
        try:
            blob = json.load(open(p))
            sub = subs[blob["subcheck"]]
            try:
                sub.check(blob["case"], core.Rec())
            except core.Violation as v:
                still = core.signature(sub.name, v) == k["sig"]
        except Exception as e:  # noqa: BLE001
            lines.append(f"HARNESS-ERROR: known finding replay {p}: {e}")
            status = 2
        if still:
            print(f"KNOWN-FINDING: property={prop_id} {k['text']} [sig={k['sig']}]")
        else:
            print(f"NOTE: listed finding no longer reproduces: property={prop_id} sig={k['sig']}")
        known_report.append({"sig": k["sig"], "reproduces": still})

    # ---- aggregate ---------------------------------------------------------------------------------
    evaluations = 0
    hashes = set()
    per_sub = {}
    samples = []
    errors = []
    tags_total = {}
    known_hits = {}
    all_exh = []
    for r in results:
        evaluations += r["evaluations"]
        hashes |= r["nontrivial_hashes"]
        ps = per_sub.setdefault(r["sub"], {"evaluations": 0, "nontrivial": set(), "tags": {},
                                           "skips": {}, "wall_s": 0.0, "violations": 0})
        ps["evaluations"] += r["evaluations"]
        ps["nontrivial"] |= r["nontrivial_hashes"]
        ps["wall_s"] = round(ps["wall_s"] + r["wall_s"], 2)
        for k, v in dict(r["tags"]).items():
            ps["tags"][k] = ps["tags"].get(k, 0) + v
            tags_total[k] = tags_total.get(k, 0) + v
        for k, v in dict(r["skips"]).items():
            ps["skips"][k] = ps["skips"].get(k, 0) + v
        for k, v in dict(r["known_hits"]).items():
            known_hits[k] = known_hits.get(k, 0) + v
        if r["samples"] and len(samples) < 12:
            samples.append({"subcheck": r["sub"], "case": r["samples"][0]})
        if r["error"]:
            errors.append((r["sub"], r["error"]))
        if r["exhaustive"]:
            all_exh.append(r["sub"])
        for f in r["violations"]:
            ps["violations"] += 1
            path = core.write_replay(VERIF, prop_id, r["sub"], f)
            violations.append({"sig": f["sig"], "path": path, "detail": f["detail"]})
    for ps in per_sub.values():
        ps["nontrivial"] = len(ps["nontrivial"])

    seen = set()
    for v in violations:
        if v["sig"] in seen:
            continue
        seen.add(v["sig"])
        if len(seen) <= 12:
            print(f"  violation sig={v['sig']}\n    {v['detail'][:600]}")
        print(f"VIOLATION property={prop_id} replay={v['path']}")
        status = max(status, 1)
    for sub, err in errors:
        print(f"HARNESS-ERROR: property={prop_id} subcheck={sub}: {err}")
    if errors and status == 0:
        status = 2
    for ln in lines:
        print(ln)

    wall = time.time() - t0
    rule = getattr(mod, "RULE", "")
    ev = {
        "property_id": prop_id, "tier": tier, "seed": seed, "level": "exploration",
        "coverage": {
            "evaluations": evaluations,
            "distinct_nontrivial": len(hashes),
            "rule": rule,
            "samples": samples[:8],
            "per_subcheck": per_sub,
            "class_histogram": dict(sorted(tags_total.items())),
            "known_finding_hits_excluded": known_hits,
            "known_findings": known_report,
            "regression_replays_checked": corpus_checked,
            "exhaustive_subspaces": sorted(set(all_exh)),
            "coverage_guided_stage": fuzz_info,
            "subchecks": len(names), "tasks": len(tasks),
            "versions": _versions(),
        },
        "assumptions": getattr(mod, "ASSUMPTIONS", []),
        "wall_s": round(wall, 2),
        "violations": len(seen),
    }
    if all_exh:
        ev["coverage"]["exhaustive"] = False  # only the named sub-spaces are exhaustive
    if only is None and tier != "fuzz" and not os.environ.get("VERIF_NO_EVIDENCE"):
        os.makedirs(os.path.join(VERIF, "evidence"), exist_ok=True)
        with open(os.path.join(VERIF, "evidence", f"{prop_id}.json"), "w") as fh:
            json.dump(core.jsonable(ev), fh, indent=1, sort_keys=True)
    print(f"[{prop_id} {tier} seed={seed}] evaluations={evaluations} distinct_nontrivial={len(hashes)} "
          f"violations={len(seen)} errors={len(errors)} wall={wall:.1f}s")
    if os.environ.get("VERIF_VERBOSE"):
        for n, ps in sorted(per_sub.items()):
            print(f"   {n:38s} ev={ps['evaluations']:6d} nt={ps['nontrivial']:6d} t={ps['wall_s']:6.1f}s "
                  f"skips={ps['skips']} tags={ps['tags']}")
    return status


def _versions():
    import numpy
    import hypothesis
    v = {"numpy": numpy.__version__, "hypothesis": hypothesis.__version__,
         "python": sys.version.split()[0]}
    return v


def main(argv=None):
    ap = argparse.ArgumentParser()
    ap.add_argument("prop", nargs="?")
    ap.add_argument("tier", nargs="?", default="quick", choices=["quick", "thorough", "fuzz"])
    ap.add_argument("--replay")
    ap.add_argument("--only")
    ap.add_argument("--jobs", type=int)
    ap.add_argument("--list", action="store_true")
    a = ap.parse_args(argv)
    try:
        if a.replay:
            st, _ = replay(a.replay)
            return st
        if a.list:
            _, subs = _load(a.prop)
            for n in subs:
                print(n)
            return 0
        only = set(a.only.split(",")) if a.only else None
        return run_property(a.prop, a.tier, only, a.jobs)
    except SystemExit:
        raise
    except Exception as e:  # noqa: BLE001
        import traceback
        traceback.print_exc()
        print(f"HARNESS-ERROR: {type(e).__name__}: {e}")
        return 2


if __name__ == "__main__":
    sys.exit(main())
