"""Coverage-guided stage (atheris / libFuzzer) for one sub-check.

    python -m synverif.fuzzchild <ID> <subcheck> <workdir> <execs> <seconds> <seed> <known-sigs-json>

libFuzzer mutates a byte string; Hypothesis' `fuzz_one_input` decodes it through the sub-check's ordinary strategy
into the same JSON case the random tier generates, and the sub-check's ordinary oracle judges it.  Coverage feedback
comes from the instrumented `synapgrad` package only (the harness is not instrumented, so the gradient points at the
code under test).  A failing byte string is saved by Hypothesis into the example database under <workdir>/db; the
parent replays and shrinks it with the normal Hypothesis engine (collect-then-shrink), so the replay file is the
same minimal JSON case the random tier would write.

exit 0: budget used, nothing failed     exit 77: a failing input is in the database     exit 2: harness problem
stats (evaluations, non-trivial hashes, tags, libFuzzer features) are written to <workdir>/stats.json by this
process itself before it leaves (atexit handlers do not run under libFuzzer)."""
import json
import os
import sys
import time


def make_test(sub, one, dbdir, phases, max_examples=1):
    """The Hypothesis test both the fuzz child and the shrinking parent build - it must be the same function object
    shape (module, name, source) in both, because the database key is derived from it."""
    from hypothesis import HealthCheck, given, settings
    from hypothesis.database import DirectoryBasedExampleDatabase

    @settings(max_examples=max_examples, database=DirectoryBasedExampleDatabase(dbdir), deadline=None,
              report_multiple_bugs=False, print_blob=False, phases=phases,
              suppress_health_check=list(HealthCheck))
    @given(sub.strategy())
    def synverif_fuzz_test(case):
        one(case)

    return synverif_fuzz_test


def _patch_bytestring_provider():
    """Hypothesis 6.168's BytestringProvider.draw_integer draws `bits(max-min)` bits and rejects until the raw value
    lies in [min, max] WITHOUT adding min: every range whose lower bound exceeds its width (integers(250, 262),
    the swap indices of st.permutations, ...) can never be satisfied and the whole byte string is reported as
    overrun.  The replacement offsets by min_value; failing inputs are stored as choice sequences, so replay and
    shrinking by the stock engine are unaffected."""
    from hypothesis.internal.conjecture.providers import BytestringProvider

    def draw_integer(self, min_value=None, max_value=None, *, weights=None, shrink_towards=0):
        if min_value is None and max_value is None:
            min_value, max_value = -(2 ** 127), 2 ** 127 - 1
        elif min_value is None:
            min_value = max_value - 2 ** 64
        elif max_value is None:
            max_value = min_value + 2 ** 64
        if min_value == max_value:
            return min_value
        span = max_value - min_value
        bits = span.bit_length()
        v = self._draw_bits(bits)
        while v > span:
            v = self._draw_bits(bits)
        return min_value + v

    BytestringProvider.draw_integer = draw_integer


def shrink_main(argv):
    """python -m synverif.fuzzchild --shrink <ID> <subcheck> <workdir> <known-sigs-json>
    replays the failing byte string(s) the fuzz run saved in <workdir>/db through the ordinary Hypothesis engine
    (reuse + shrink) and writes the minimal failing case to <workdir>/fail.json"""
    prop_id, sub_name, work, known_json = argv[:4]
    known = set(json.loads(known_json))
    import importlib

    from hypothesis import Phase

    from . import env
    from .core import Rec, Violation, _flaky_violation, jsonable, signature
    mod = importlib.import_module(f"synverif.props.{prop_id.lower()}")
    sub = [s for s in mod.subchecks() if s.name == sub_name][0]
    state = {"last_fail": None}

    def one(case):
        try:
            env.reset_global_modes()
            sub.check(case, Rec())
        except Violation as v:
            sig = signature(sub.name, v)
            if sig in known:
                return
            state["last_fail"] = {"sig": sig, "kind": v.kind, "detail": v.detail[:2000], "case": jsonable(case)}
            raise

    test = make_test(sub, one, os.path.join(work, "db"), (Phase.reuse, Phase.shrink))
    found = {}
    try:
        test()
    except Violation:
        f = state["last_fail"]
        found[f["sig"]] = f
    except Exception as e:  # noqa: BLE001
        if not _flaky_violation(e, state, found):
            raise
    with open(os.path.join(work, "fail.json"), "w") as fh:
        json.dump(list(found.values()), fh)
    return 0


def main(argv):
    if argv and argv[0] == "--shrink":
        return shrink_main(argv[1:])
    prop_id, sub_name, work, execs, seconds, seed, known_json = argv[:7]
    execs, seconds, seed = int(execs), float(seconds), int(seed)
    known = set(json.loads(known_json))
    os.makedirs(os.path.join(work, "corpus"), exist_ok=True)
    # starting corpus: byte strings long enough for the strategy to complete (from an empty corpus libFuzzer spends its
    # budget on inputs that are too short to decode), a pure function of the seed: the all-zero string (= the
    # strategy's simplest case) and pseudo-random strings of several lengths
    import random
    rnd = random.Random(seed)
    blobs = [bytes(8192)] + [rnd.randbytes(n) for n in (256, 1024, 1024, 4096, 4096, 8192, 8192)]
    for i, b in enumerate(blobs):
        with open(os.path.join(work, "corpus", f"seed{i}"), "wb") as fh:
            fh.write(b)
    import atheris

    with atheris.instrument_imports(include=["synapgrad"], enable_loader_override=False):
        from . import env  # noqa: F401  (imports synapgrad from VERIF_REPO, instrumented)
    import importlib

    from hypothesis import Phase

    from .core import Rec, Violation, case_hash, signature
    mod = importlib.import_module(f"synverif.props.{prop_id.lower()}")
    subs = [s for s in mod.subchecks() if s.name == sub_name]
    if not subs or subs[0].strategy is None:
        print(f"fuzzchild: no strategy sub-check {sub_name}")
        return 2
    sub = subs[0]
    st = {"evaluations": 0, "nt": set(), "tags": {}, "skips": {}, "known_hits": {}, "invalid": 0, "t0": time.time(),
          "failed": False}

    def dump():
        with open(os.path.join(work, "stats.json"), "w") as fh:
            json.dump({"evaluations": st["evaluations"], "nontrivial": sorted(st["nt"]), "tags": st["tags"],
                       "skips": st["skips"], "known_hits": st["known_hits"], "invalid_buffers": st["invalid"],
                       "wall_s": time.time() - st["t0"], "failed": st["failed"]}, fh)

    def one(case):
        rec = Rec()
        st["evaluations"] += 1
        try:
            env.reset_global_modes()
            sub.check(case, rec)
        except Violation as v:
            sig = signature(sub.name, v)
            if sig in known:
                st["known_hits"][sig] = st["known_hits"].get(sig, 0) + 1
                return
            raise
        finally:
            if rec.skip:
                st["skips"][rec.skip] = st["skips"].get(rec.skip, 0) + 1
            for t in rec.tags:
                st["tags"][t] = st["tags"].get(t, 0) + 1
            if rec.nt:
                st["nt"].add(case_hash(case))

    _patch_bytestring_provider()
    test = make_test(sub, one, os.path.join(work, "db"), (Phase.generate,))
    fuzz = test.hypothesis.fuzz_one_input
    calls = {"n": 0}

    def target(data):
        calls["n"] += 1
        before = st["evaluations"]
        try:
            fuzz(data)
        except Violation:
            st["failed"] = True
            dump()
            sys.stdout.flush()
            os._exit(77)
        except BaseException as e:  # noqa: BLE001 - harness problem: never a verdict
            import traceback
            sys.stdout.write("fuzzchild harness error: " + "".join(traceback.format_exception_only(type(e), e))[-500:]
                             + traceback.format_exc()[-1500:] + "\n")
            dump()
            sys.stdout.flush()
            os._exit(2)
        if st["evaluations"] == before:
            st["invalid"] += 1
        if st["evaluations"] >= execs or time.time() - st["t0"] > seconds or calls["n"] >= 50 * execs:
            dump()
            sys.stdout.flush()
            os._exit(0)

    atheris.Setup([sys.argv[0], os.path.join(work, "corpus"), f"-seed={seed % (2 ** 31 - 1) + 1}", "-max_len=8192",
                   "-print_final_stats=0", "-verbosity=0", "-len_control=20"], target)
    atheris.Fuzz()
    dump()
    return 0


if __name__ == "__main__":
    sys.exit(main(sys.argv[1:]))
