"""Finite-difference VJP oracle: central differences (float64) of the function the forward pass
computed, contracted with the upstream gradient g."""
import numpy as np


class FwdDtype(Exception):
    """forward fed float64 did not return float64 - FD would be noise; the caller skips and counts"""


def fd_vjp(f, xs, g, which, h0=1e-6, hscale=1.0):
    """f: list[np.float64 arrays] -> np array (any float dtype);  returns {i: d<g,f>/dx_i} for i in which.
    Raises FwdDtype if f does not return float64 for float64 input."""
    xs = [np.array(x, dtype=np.float64) for x in xs]
    g = np.asarray(g, dtype=np.float64)
    out0 = np.asarray(f([x.copy() for x in xs]))
    if out0.dtype != np.float64:
        raise FwdDtype(str(out0.dtype))
    if out0.shape != g.shape:
        raise ValueError(f"fd: forward shape {out0.shape} != g shape {g.shape}")
    grads = {}
    for i in which:
        x = xs[i]
        gi = np.zeros(x.shape, dtype=np.float64)
        flat = x.reshape(-1)  # view (x is contiguous, freshly created)
        gflat = gi.reshape(-1)
        for j in range(flat.size):
            old = flat[j]
            h = h0 * max(hscale, abs(old))
            flat[j] = old + h
            fp = np.asarray(f([a.copy() for a in xs]), dtype=np.float64)
            flat[j] = old - h
            fm = np.asarray(f([a.copy() for a in xs]), dtype=np.float64)
            flat[j] = old
            gflat[j] = float(((fp - fm) * g).sum()) / (2 * h)
        grads[i] = gi
    return grads


def close(got, want, dtype, f64_tol=1e-5, f32_tol=2e-3, floor=1.0):
    """returns (ok, maxerr, scale)"""
    got = np.asarray(got, dtype=np.float64)
    want = np.asarray(want, dtype=np.float64)
    if got.shape != want.shape:
        return False, float("inf"), 1.0
    if got.size == 0:
        return True, 0.0, 1.0
    if not np.all(np.isfinite(got)):
        return False, float("inf"), 1.0
    scale = max(floor, float(np.abs(want).max()))
    err = float(np.abs(got - want).max())
    tol = f64_tol if np.dtype(dtype) == np.float64 else f32_tol
    return err <= tol * scale, err, scale
