"""Oracle self-test:  python -m synverif.selftest [N]

Cross-validates the deciding oracles of the framework against torch on torch-legal, crash-free domains:
 (1) every reference model of the two catalogues that has a torch equivalent (forward values, float64);
 (2) the finite-difference VJP oracle against torch.autograd on the same cases.
torch never decides a property: a disagreement here means one of MY oracles is wrong, so the exit code is 2
(harness problem), never 1.  Exit 0 = all oracles agree with torch on everything generated."""
import sys

import numpy as np


def main(argv):
    n = int(argv[1]) if len(argv) > 1 else 150
    from . import env  # noqa: F401
    try:
        import torch
        import torch.nn.functional as TF
    except Exception as e:  # noqa: BLE001
        print(f"selftest: torch not importable ({e}); nothing to cross-validate")
        return 0
    import hypothesis
    from hypothesis import HealthCheck, given, settings
    from . import fd, gen, nnops, ops, ref_conv as R

    T = lambda a: torch.tensor(np.asarray(a, dtype=np.float64))  # noqa: E731

    def pool_ok(a, dims):
        k, s, p, d = (gen.realize(a[q]) for q in "kspd")
        kk = [k] * dims if isinstance(k, int) else list(k)
        pp = [p] * dims if isinstance(p, int) else list(p)
        dd = [d] * dims if isinstance(d, int) else list(d)
        return all(x == 1 for x in dd) and all(2 * pi <= ki for pi, ki in zip(pp, kk))

    def g3(a, key):
        return gen.realize(a[key])

    def bn_torch(xs, a):
        i = 1
        w = b = None
        if a["has_w"]:
            w = xs[i]; i += 1
        if a["has_b"]:
            b = xs[i]; i += 1
        rm = T(a["rm"]).clone() if a["stats"] else None
        rv = T(a["rv"]).clone() if a["stats"] else None
        training = a["training"] or not a["stats"]
        x = xs[0]
        off = nnops._bn_offset(a, tuple(x.shape), a.get("_dtype", "float64"))      # the same far-from-zero data the reference sees
        if off is not None:
            x = x + torch.tensor(off, dtype=x.dtype)
        return TF.batch_norm(x, rm, rv, w, b, training, a["momentum"], a["eps"])

    def loss_torch(name):
        def f(xs, a):
            red = a.get("reduction", "none") if a["form"] == "module" else "none"
            p = xs[0]
            if name == "mse":
                return TF.mse_loss(p, xs[1], reduction=red)
            if name in ("nll", "ce"):
                lab = torch.tensor(a["labels"], dtype=torch.long)
                return (TF.nll_loss if name == "nll" else TF.cross_entropy)(p, lab, reduction=red)
            y = T(a["target"]).reshape(p.shape)
            if name == "bce":
                return TF.binary_cross_entropy(p, y, reduction=red)
            return TF.binary_cross_entropy_with_logits(p, y, reduction=red)
        return f

    NN = {
        "relu": (lambda xs, a: TF.relu(xs[0]), None),
        "leaky_relu": (lambda xs, a: TF.leaky_relu(xs[0], a.get("slope", 0.01)), None),
        "selu": (lambda xs, a: TF.selu(xs[0]), None),
        "tanh": (lambda xs, a: torch.tanh(xs[0]), None),
        "sigmoid": (lambda xs, a: torch.sigmoid(xs[0]), None),
        "softmax": (lambda xs, a: TF.softmax(xs[0], a["dim"]), None),
        "log_softmax": (lambda xs, a: TF.log_softmax(xs[0], a["dim"]), None),
        "loss_mse": (loss_torch("mse"), None), "loss_nll": (loss_torch("nll"), None), "loss_bce": (loss_torch("bce"), None),
        "loss_bce_logits": (loss_torch("bce_logits"), None), "loss_ce": (loss_torch("ce"), None),
        "linear": (lambda xs, a: TF.linear(xs[0], xs[1], xs[2] if a["bias"] else None), None),
        "conv1d": (lambda xs, a: TF.conv1d(xs[0], xs[1], xs[2] if a["bias"] else None, a["s"], a["p"], a["d"]), None),
        "conv2d": (lambda xs, a: TF.conv2d(xs[0], xs[1], xs[2] if a["bias"] else None, g3(a, "s"), g3(a, "p"), g3(a, "d")), None),
        "max_pool1d": (lambda xs, a: TF.max_pool1d(xs[0], a["k"], a["s"], a["p"], a["d"]), lambda a: pool_ok(a, 1)),
        "max_pool2d": (lambda xs, a: TF.max_pool2d(xs[0], g3(a, "k"), g3(a, "s"), g3(a, "p"), g3(a, "d")), lambda a: pool_ok(a, 2)),
        "avg_pool1d": (lambda xs, a: TF.avg_pool1d(xs[0], a["k"], a["s"], a["p"]), lambda a: pool_ok(a, 1)),
        "avg_pool2d": (lambda xs, a: TF.avg_pool2d(xs[0], g3(a, "k"), g3(a, "s"), g3(a, "p")), lambda a: pool_ok(a, 2)),
        "unfold": (lambda xs, a: TF.unfold(xs[0], g3(a, "k"), g3(a, "d"), g3(a, "p"), g3(a, "s")), lambda a: a["pad_value"] == 0),
        "fold": (lambda xs, a: TF.fold(xs[0], tuple(a["out"]), g3(a, "k"), g3(a, "d"), g3(a, "p"), g3(a, "s")), None),
        "batch_norm": (bn_torch, None),
        "flatten_layer": (lambda xs, a: torch.flatten(xs[0], a.get("start", 1), a.get("end", -1)), None),
    }

    def dimt(d):
        d = ops.dimval(d)
        return d

    def red_t(fn):
        def f(xs, a):
            d = dimt(a["dim"])
            if d is None:
                out = fn(xs[0])
                return out.reshape([1] * xs[0].ndim) if a["keepdims"] else out
            return fn(xs[0], dim=d, keepdim=a["keepdims"])
        return f

    def maxmin_t(which):
        def f(xs, a):
            d = a["dim"]
            x = xs[0]
            if d is None:
                out = getattr(x, which)()
                return out.reshape([1] * x.ndim) if a["keepdims"] else out
            return getattr(x, which)(dim=d, keepdim=a["keepdims"]).values
        return f

    TS = {
        "binary": (lambda xs, a: {"add": torch.add, "mul": torch.mul, "sub": torch.sub, "div": torch.div}[a["form"][:3]](
            *[xs[i] for i in a.get("use", [0, 1])]), None),
        "matmul": (lambda xs, a: xs[0] @ xs[1], None),
        "addmm": (lambda xs, a: xs[0] + xs[1] @ xs[2], None),
        "pow": (lambda xs, a: xs[0] ** a["n"], None),
        "rpow": (lambda xs, a: a["n"] ** xs[0], None),
        "exp": (lambda xs, a: xs[0].exp(), None), "log": (lambda xs, a: xs[0].log(), None), "sqrt": (lambda xs, a: xs[0].sqrt(), None),
        "sum": (red_t(torch.sum), None), "mean": (red_t(torch.mean), None),
        "max": (maxmin_t("max"), None), "min": (maxmin_t("min"), None),
        "squeeze": (lambda xs, a: xs[0].squeeze() if a["dim"] is None else xs[0].squeeze(ops.dimval(a["dim"])), None),
        "unsqueeze": (lambda xs, a: xs[0].unsqueeze(a["dim"]), lambda a: isinstance(a["dim"], int)),
        "reshape": (lambda xs, a: xs[0].reshape(a["shape"]), None),
        "movedim": (lambda xs, a: xs[0].movedim(ops.dimval(a["source"]), ops.dimval(a["destination"])), None),
        "transpose": (lambda xs, a: xs[0].transpose(a["dim0"], a["dim1"]), None),
        "flatten": (lambda xs, a: xs[0].flatten(a["start"], a["end"]), None),
        "unfold_dim": (lambda xs, a: xs[0].unfold(a["dimension"], a["size"], a["step"]), None),
        "concat": (lambda xs, a: torch.cat([xs[i] for i in a["use"]], a["dim"]), None),
        "stack": (lambda xs, a: torch.stack([xs[i] for i in a["use"]], a["dim"]), None),
        "unbind": (lambda xs, a: list(torch.unbind(xs[0], a["dim"])), None),
    }

    problems = []
    stats = {}

    def run(op, tfn, ok, with_fd):
        cnt = {"n": 0, "fd": 0}

        @hypothesis.seed(20260104)
        @settings(max_examples=n, database=None, deadline=None, suppress_health_check=list(HealthCheck))
        @given(ops.full_case(op))
        def t(c):
            a = c["args"]
            if ok is not None and not ok(a):
                return
            if isinstance(a.get("dim"), dict) and not a["dim"]["tuple"]:
                return      # dim=(): torch reduces over every dim, NumPy (and synapgrad) over none - not a comparable case
            arrs = ops.arrays(c)
            want = op.ref(arrs, a)
            tx = [T(x).requires_grad_(True) for x in arrs]
            try:
                got = tfn(tx, a)
            except Exception:  # noqa: BLE001  torch rejects: not a torch-legal case
                return
            cnt["n"] += 1
            gl = got if isinstance(got, list) else [got]
            wl = want if isinstance(want, list) else [want]
            for gi, wi in zip(gl, wl):
                g_ = gi.detach().numpy()
                w_ = np.asarray(wi, dtype=np.float64)
                if g_.shape != w_.shape or (g_.size and np.abs(g_ - w_).max() > 1e-9 * max(1.0, np.abs(w_).max())):
                    problems.append(f"REFERENCE {op.name}: torch {g_.shape} vs reference {w_.shape} args={a} shapes={ops.shapes_of(c)}")
                    return
            if with_fd and cnt["fd"] < n // 3 and not isinstance(got, list):
                out = got
                gup = gen.cyc(c["g"], tuple(out.shape), np.float64)
                which = [i for i in range(len(arrs)) if tx[i].requires_grad]
                grads = torch.autograd.grad(out, [tx[i] for i in which], grad_outputs=T(gup), allow_unused=True)

                def f(arrs2):
                    return np.asarray(op.ref(arrs2, a), dtype=np.float64)
                try:
                    sc = float(c.get("scale", 1.0))          # (as in gradcheck: the step follows the case's magnitude)
                    fdg = fd.fd_vjp(f, arrs, gup, which, hscale=max(sc, op.fd_hscale(a)) if op.fd_hscale is not None else sc)
                except Exception:  # noqa: BLE001
                    return
                cnt["fd"] += 1
                for i, gr in zip(which, grads):
                    gr = np.zeros(arrs[i].shape) if gr is None else gr.numpy()
                    floor = 1.0 if 1e-3 < sc < 1e3 else min(1.0, float(np.abs(gr).max()) or 1.0)
                    okk, err, scale = fd.close(fdg[i], gr, np.float64, f64_tol=1e-5, floor=floor)
                    if not okk:
                        problems.append(f"FD-ORACLE {op.name}: finite differences vs torch.autograd differ by {err:.2e} args={a}")
                        return
        t()
        stats[op.name] = cnt

    for op in nnops.OPS:
        if op.name in NN:
            run(op, NN[op.name][0], NN[op.name][1], op.smooth and op.name not in ("max_pool1d", "max_pool2d"))
    for op in ops.OPS:
        if op.name in TS:
            run(op, TS[op.name][0], TS[op.name][1], op.name not in ("max", "min", "unbind"))
    for k, v in stats.items():
        print(f"  {k:18s} cases cross-validated: {v['n']:4d}   fd-vs-autograd: {v['fd']:3d}")
    if problems:
        for p in problems[:20]:
            print("SELFTEST-DISAGREEMENT:", p)
        print("HARNESS-ERROR: oracle self-test failed (exit 2; this is never a property verdict)")
        return 2
    print(f"selftest ok: {sum(v['n'] for v in stats.values())} reference evaluations and "
          f"{sum(v['fd'] for v in stats.values())} finite-difference gradients agree with torch")
    return 0


if __name__ == "__main__":
    sys.exit(main(sys.argv))
