"""Brute-force, loop-based reference models of the sliding-window family.  Deliberately share no
code and no algorithmic trick with synapgrad/conv_tools.py or cpu_ops.py."""
import numpy as np


def pair(v):
    if isinstance(v, (list, tuple, np.ndarray)):
        a = list(v)
        if len(a) == 1:
            a = a * 2
        return int(a[0]), int(a[1])
    return int(v), int(v)


def out_len(L, k, s, p, d):
    """floor((L + 2p - d(k-1) - 1)/s) + 1, integer arithmetic (python // floors)."""
    return (L + 2 * p - d * (k - 1) - 1) // s + 1


def pad2d(x, p, value):
    N, C, H, W = x.shape
    out = np.full((N, C, H + 2 * p[0], W + 2 * p[1]), value, dtype=x.dtype)
    out[:, :, p[0]:p[0] + H, p[1]:p[1] + W] = x
    return out


def unfold_ref(x, k, d, s, p, pad_value=0):
    """(N,C,H,W) -> (N, C*kh*kw, L): rows channel-major (c,kh,kw), columns row-major over
    output positions.  The PyTorch nn.Unfold definition."""
    k, d, s, p = pair(k), pair(d), pair(s), pair(p)
    N, C, H, W = x.shape
    lh = out_len(H, k[0], s[0], p[0], d[0])
    lw = out_len(W, k[1], s[1], p[1], d[1])
    if lh <= 0 or lw <= 0:
        raise ValueError("no window")
    xp = pad2d(x, p, pad_value)
    out = np.zeros((N, C * k[0] * k[1], lh * lw), dtype=x.dtype)
    for n in range(N):
        for c in range(C):
            for a in range(k[0]):
                for b in range(k[1]):
                    row = (c * k[0] + a) * k[1] + b
                    for i in range(lh):
                        for j in range(lw):
                            out[n, row, i * lw + j] = xp[n, c, i * s[0] + a * d[0], j * s[1] + b * d[1]]
    return out


def fold_ref(cols, out_hw, k, d, s, p, C=None):
    """(N, C*kh*kw, L) -> (N,C,H,W): scatter-add, the PyTorch nn.Fold definition."""
    k, d, s, p = pair(k), pair(d), pair(s), pair(p)
    N, R, L = cols.shape
    H, W = out_hw
    if C is None:
        C = R // (k[0] * k[1])
    lh = out_len(H, k[0], s[0], p[0], d[0])
    lw = out_len(W, k[1], s[1], p[1], d[1])
    assert lh * lw == L, (lh, lw, L)
    outp = np.zeros((N, C, H + 2 * p[0], W + 2 * p[1]), dtype=cols.dtype)
    for n in range(N):
        for c in range(C):
            for a in range(k[0]):
                for b in range(k[1]):
                    row = (c * k[0] + a) * k[1] + b
                    for i in range(lh):
                        for j in range(lw):
                            outp[n, c, i * s[0] + a * d[0], j * s[1] + b * d[1]] += cols[n, row, i * lw + j]
    return outp[:, :, p[0]:p[0] + H, p[1]:p[1] + W]


def cover_count(shape, k, d, s, p):
    """Number of windows covering each pixel, by brute-force window enumeration."""
    k, d, s, p = pair(k), pair(d), pair(s), pair(p)
    N, C, H, W = shape
    lh = out_len(H, k[0], s[0], p[0], d[0])
    lw = out_len(W, k[1], s[1], p[1], d[1])
    cnt = np.zeros((H + 2 * p[0], W + 2 * p[1]), dtype=np.int64)
    for i in range(lh):
        for j in range(lw):
            for a in range(k[0]):
                for b in range(k[1]):
                    cnt[i * s[0] + a * d[0], j * s[1] + b * d[1]] += 1
    return cnt[p[0]:p[0] + H, p[1]:p[1] + W]


def windows2d_ref(x, k, s, p, d, pad_value=0):
    """(N,C,H,W) -> (lH,lW,N,C,kH,kW) as documented by extract_windows."""
    k, d, s, p = pair(k), pair(d), pair(s), pair(p)
    N, C, H, W = x.shape
    lh = out_len(H, k[0], s[0], p[0], d[0])
    lw = out_len(W, k[1], s[1], p[1], d[1])
    if lh <= 0 or lw <= 0:
        raise ValueError("no window")
    xp = pad2d(x, p, pad_value)
    out = np.zeros((lh, lw, N, C, k[0], k[1]), dtype=x.dtype)
    for i in range(lh):
        for j in range(lw):
            for a in range(k[0]):
                for b in range(k[1]):
                    out[i, j, :, :, a, b] = xp[:, :, i * s[0] + a * d[0], j * s[1] + b * d[1]]
    return out


def place2d_ref(w, shape, k, s, p, d):
    k, d, s, p = pair(k), pair(d), pair(s), pair(p)
    N, C, H, W = shape
    lh, lw = w.shape[0], w.shape[1]
    outp = np.zeros((N, C, H + 2 * p[0], W + 2 * p[1]), dtype=w.dtype)
    for i in range(lh):
        for j in range(lw):
            for a in range(k[0]):
                for b in range(k[1]):
                    outp[:, :, i * s[0] + a * d[0], j * s[1] + b * d[1]] += w[i, j, :, :, a, b]
    return outp[:, :, p[0]:p[0] + H, p[1]:p[1] + W]


def windows1d_ref(x, k, s, p, d, pad_value=0):
    """(N,C,W) -> (lW,N,C,kW)."""
    N, C, W = x.shape
    lw = out_len(W, k, s, p, d)
    if lw <= 0:
        raise ValueError("no window")
    xp = np.full((N, C, W + 2 * p), pad_value, dtype=x.dtype)
    xp[:, :, p:p + W] = x
    out = np.zeros((lw, N, C, k), dtype=x.dtype)
    for j in range(lw):
        for b in range(k):
            out[j, :, :, b] = xp[:, :, j * s + b * d]
    return out


def place1d_ref(w, shape, k, s, p, d):
    N, C, W = shape
    lw = w.shape[0]
    outp = np.zeros((N, C, W + 2 * p), dtype=w.dtype)
    for j in range(lw):
        for b in range(k):
            outp[:, :, j * s + b * d] += w[j, :, :, b]
    return outp[:, :, p:p + W]


# ---------------------------------------------------------------------------------------------
# conv / pool references (float64, loops over output positions)
# ---------------------------------------------------------------------------------------------

def conv2d_ref(x, w, b, s, p, d):
    s, p, d = pair(s), pair(p), pair(d)
    N, C, H, W = x.shape
    Co, Ci, kh, kw = w.shape
    lh = out_len(H, kh, s[0], p[0], d[0])
    lw = out_len(W, kw, s[1], p[1], d[1])
    if lh <= 0 or lw <= 0:
        raise ValueError("no window")
    xp = pad2d(x.astype(np.float64), p, 0.0)
    out = np.zeros((N, Co, lh, lw), dtype=np.float64)
    for n in range(N):
        for o in range(Co):
            for i in range(lh):
                for j in range(lw):
                    acc = 0.0
                    for c in range(Ci):
                        for a in range(kh):
                            for bb in range(kw):
                                acc += w[o, c, a, bb] * xp[n, c, i * s[0] + a * d[0], j * s[1] + bb * d[1]]
                    out[n, o, i, j] = acc + (b[o] if b is not None else 0.0)
    return out


def conv1d_ref(x, w, b, s, p, d):
    out = conv2d_ref(x[:, :, None, :], w[:, :, None, :], b, (1, s), (0, p), (1, d))
    return out[:, :, 0, :]


def pool2d_ref(x, k, s, p, d, mode):
    """max: padding is -inf (never wins when a real element is in the window);
    avg: padded zeros are counted (divide by kh*kw)."""
    k, s, p, d = pair(k), pair(s), pair(p), pair(d)
    N, C, H, W = x.shape
    lh = out_len(H, k[0], s[0], p[0], d[0])
    lw = out_len(W, k[1], s[1], p[1], d[1])
    if lh <= 0 or lw <= 0:
        raise ValueError("no window")
    fill = -np.inf if mode == "max" else 0.0
    xp = pad2d(x.astype(np.float64), p, fill)
    out = np.zeros((N, C, lh, lw), dtype=np.float64)
    for i in range(lh):
        for j in range(lw):
            vals = [xp[:, :, i * s[0] + a * d[0], j * s[1] + b * d[1]]
                    for a in range(k[0]) for b in range(k[1])]
            vals = np.stack(vals, axis=-1)
            out[:, :, i, j] = vals.max(-1) if mode == "max" else vals.sum(-1) / (k[0] * k[1])
    return out


def pool1d_ref(x, k, s, p, d, mode):
    return pool2d_ref(x[:, :, None, :], (1, k), (1, s), (0, p), (1, d), mode)[:, :, 0, :]


def every_window_has_real(L, k, s, p, d):
    """True iff every window along an axis of extent L contains at least one non-padding cell."""
    n = out_len(L, k, s, p, d)
    for i in range(n):
        ok = False
        for a in range(k):
            pos = i * s + a * d
            if p <= pos < p + L:
                ok = True
                break
        if not ok:
            return False
    return n > 0
