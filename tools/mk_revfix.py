#!/venv/bin/python
"""Generates mutants/revfix_<commit>.patch (+ .json) = the reverse of every 'fix:' commit recorded in
KNOWN_FINDINGS.txt, i.e. 're-introduce each fixed finding' as a sensitivity mutant."""
import json, os, re, subprocess
VERIF = os.path.dirname(os.path.dirname(os.path.abspath(__file__)))
props = {}
for line in open(os.path.join(VERIF, "KNOWN_FINDINGS.txt")):
    m = re.match(r"fixed:\s+property=(C\d\d)\s+([0-9a-f]{7,})\s+(.*)", line)
    if m:
        props.setdefault(m.group(2), {"props": [], "note": m.group(3)[:200]})
        props[m.group(2)]["props"].append(m.group(1))
        for extra in re.findall(r"\b(C\d\d)\b", m.group(3)):
            if extra not in props[m.group(2)]["props"]:
                props[m.group(2)]["props"].append(extra)
for c, meta in props.items():
    d = subprocess.run(["git", "-C", "/repo", "diff", c, c + "^"], capture_output=True, text=True).stdout
    if not d.strip():
        print("empty diff for", c); continue
    name = f"revfix_{'_'.join(meta['props'])}_{c}"
    dst = os.path.join(VERIF, "mutants", name + ".patch")
    ok = subprocess.run(["patch", "-p1", "-s", "--dry-run", "-d", "/repo"], input=d, capture_output=True, text=True).returncode == 0
    if not ok and os.path.exists(dst):
        print("kept (ported by hand with tools/port_patch.py; the plain reverse diff no longer applies)", name); continue
    open(os.path.join(VERIF, "mutants", name + ".patch"), "w").write(d)
    json.dump({"props": meta["props"], "note": "re-introduces: " + meta["note"]}, open(os.path.join(VERIF, "mutants", name + ".json"), "w"), indent=1)
    print("wrote", name)
