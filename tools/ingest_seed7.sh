#!/bin/sh
# ingest round-2 seeds: tools/ingest_seed2.sh C06  -> stored as seeded/C06_r7_<i>
pid=$1
/venv/bin/python - "$pid" <<'PY'
import sys, os, shutil, subprocess
pid=sys.argv[1]
src=f"/tmp/wt7_{pid}/_seed"
tmp=f"/tmp/seed7stage_{pid}"
shutil.rmtree(tmp, ignore_errors=True); os.makedirs(tmp)
for i in sorted(os.listdir(src)):
    if os.path.exists(os.path.join(src,i,"patch.diff")):
        shutil.copytree(os.path.join(src,i), os.path.join(tmp,"r7_"+i))
PY
/venv/bin/python tools/ingest_seed.py $pid /tmp/seed7stage_$pid | grep -E "CONFIRMED|REJECTED"; rm -rf /tmp/seed7stage_$pid
