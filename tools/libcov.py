#!/venv/bin/python
"""Which lines of the library do the checks execute?  (a blind-spot finder for the generators, not a verdict)
   tools/libcov.py [C01 C02 ...]   -> out/libcov.txt : per file, the executable lines never hit, grouped by function
Runs every named property's quick tier in THIS process (VERIF_JOBS=1, examples capped by VERIF_QUICK_CAP) under
sys.monitoring LINE events (each location disabled after its first hit, so the overhead is small)."""
import ast
import os
import sys

VERIF = os.path.dirname(os.path.dirname(os.path.abspath(__file__)))
sys.path.insert(0, VERIF)
os.environ.setdefault("VERIF_QUICK_CAP", "60")
os.environ["VERIF_NO_EVIDENCE"] = "1"
os.environ["VERIF_FUZZ"] = "0"
hit = {}
REPO = os.environ.get("VERIF_REPO", "/repo")
mon = sys.monitoring
TOOL = mon.COVERAGE_ID
mon.use_tool_id(TOOL, "libcov")


def on_line(code, line):
    fn = code.co_filename
    if fn.startswith(REPO + "/synapgrad"):
        hit.setdefault(fn, set()).add(line)
    return mon.DISABLE


branches = {}     # (filename, lineno of the branch instruction) -> set of destination line numbers


def _line_of(code, offset):
    best = code.co_firstlineno
    for start, line in dis.findlinestarts(code):
        if start > offset:
            break
        if line is not None:
            best = line
    return best


def on_branch(code, src, dst):
    fn = code.co_filename
    if fn.startswith(REPO + "/synapgrad"):
        key = (fn, _line_of(code, src), src)
        d = branches.setdefault(key, set())
        d.add(dst)
        if len(d) >= 2:
            return mon.DISABLE


import dis  # noqa: E402
mon.register_callback(TOOL, mon.events.LINE, on_line)
mon.register_callback(TOOL, mon.events.BRANCH, on_branch)
mon.set_events(TOOL, mon.events.LINE | mon.events.BRANCH)

from synverif import run  # noqa: E402

props = sys.argv[1:] or [f"C{i:02d}" for i in range(1, 21)]
for p in props:
    run.run_property(p, "quick", None, 1)
mon.set_events(TOOL, 0)


def executable_lines(path):
    src = open(path).read()
    tree = ast.parse(src)
    out = {}

    def visit(node, owner):
        for ch in ast.iter_child_nodes(node):
            name = owner
            if isinstance(ch, (ast.FunctionDef, ast.AsyncFunctionDef, ast.ClassDef)):
                name = (owner + "." if owner else "") + ch.name
            if isinstance(ch, ast.stmt) and not isinstance(ch, (ast.FunctionDef, ast.ClassDef, ast.Import, ast.ImportFrom)):
                if not (isinstance(ch, ast.Expr) and isinstance(ch.value, ast.Constant) and isinstance(ch.value.value, str)):
                    out[ch.lineno] = owner
            visit(ch, name)
    visit(tree, "")
    return out, src.splitlines()


rep = []
tot = cov = 0
for root, _, files in os.walk(os.path.join(REPO, "synapgrad")):
    for f in sorted(files):
        if not f.endswith(".py"):
            continue
        path = os.path.join(root, f)
        ex, lines = executable_lines(path)
        h = hit.get(path, set())
        miss = sorted(l for l in ex if l not in h)
        tot += len(ex); cov += len(ex) - len(miss)
        rep.append(f"== {os.path.relpath(path, REPO)}: {len(ex) - len(miss)}/{len(ex)} statements executed")
        by = {}
        for l in miss:
            by.setdefault(ex[l], []).append(l)
        for owner, ls in by.items():
            rep.append(f"   {owner or '<module>'}: " + "; ".join(f"{l}: {lines[l - 1].strip()[:70]}" for l in ls[:12])
                       + (f" ... (+{len(ls) - 12})" if len(ls) > 12 else ""))
# branch sites at which only ONE direction was ever taken
rep.append("")
rep.append("== conditional branches of the library that only ever went one way under the checks")
one_way = sorted((fn, line) for (fn, line, src), d in branches.items() if len(d) == 1)
seen_lines = set()
for fn, line in one_way:
    if (fn, line) in seen_lines:
        continue
    seen_lines.add((fn, line))
    src_line = open(fn).read().splitlines()[line - 1].strip()
    nxt = open(fn).read().splitlines()[line].strip() if line < len(open(fn).read().splitlines()) else ""
    if "raise " in src_line or nxt.startswith("raise ") or "device" in src_line.lower():
        continue        # argument-type / device rejections
    rep.append(f"   {os.path.relpath(fn, REPO)}:{line}: {src_line[:110]}")
os.makedirs(os.path.join(VERIF, "out"), exist_ok=True)
open(os.path.join(VERIF, "out", "libcov.txt"), "w").write("\n".join(rep) + f"\nTOTAL {cov}/{tot}\n")
print(f"TOTAL {cov}/{tot} statements of synapgrad executed by {' '.join(props)}; details in out/libcov.txt")
