#!/bin/sh
# ingest round-2 seeds: tools/ingest_seed2.sh C06  -> stored as seeded/C06_r5_<i>
pid=$1
/venv/bin/python - "$pid" <<'PY'
import sys, os, shutil, subprocess
pid=sys.argv[1]
src=f"/tmp/wt5_{pid}/_seed"
tmp=f"/tmp/seed5stage_{pid}"
shutil.rmtree(tmp, ignore_errors=True); os.makedirs(tmp)
for i in sorted(os.listdir(src)):
    if os.path.exists(os.path.join(src,i,"patch.diff")):
        shutil.copytree(os.path.join(src,i), os.path.join(tmp,"r5_"+i))
PY
/venv/bin/python tools/ingest_seed.py $pid /tmp/seed5stage_$pid | grep -E "CONFIRMED|REJECTED"; rm -rf /tmp/seed5stage_$pid
