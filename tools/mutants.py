#!/venv/bin/python
"""Sensitivity runner: applies each patch under /verif/mutants (and /verif/seeded/*/patch.diff) to a
scratch copy of /repo, runs the named checks against it (VERIF_REPO), expects exit 1, removes the copy.

usage: tools/mutants.py [--suite] [--tier quick] [names...]
  meta: mutants/<name>.json = {"props": ["C01", ...], "note": "..."}  (optional; default: all props in name)
Writes mutants/RESULTS.md."""
import argparse
import glob
import json
import os
import re
import shutil
import subprocess
import sys
import tempfile
import time

VERIF = os.path.dirname(os.path.dirname(os.path.abspath(__file__)))
REPO = "/repo"


def collect(names):
    items = []
    for p in sorted(glob.glob(os.path.join(VERIF, "mutants", "*.patch"))):
        n = os.path.basename(p)[:-6]
        meta = {}
        mp = p[:-6] + ".json"
        if os.path.exists(mp):
            meta = json.load(open(mp))
        items.append((n, p, meta))
    for d in sorted(glob.glob(os.path.join(VERIF, "seeded", "*"))):
        p = os.path.join(d, "patch.diff")
        if os.path.exists(p):
            meta = json.load(open(os.path.join(d, "meta.json"))) if os.path.exists(os.path.join(d, "meta.json")) else {}
            items.append(("seeded/" + os.path.basename(d), p, meta))
    if names:
        items = [it for it in items if any(n in it[0] for n in names)]
    return items


def main():
    ap = argparse.ArgumentParser()
    ap.add_argument("names", nargs="*")
    ap.add_argument("--suite", action="store_true", help="also run the repository test-suite on the mutant")
    ap.add_argument("--tier", default="quick")
    ap.add_argument("--props", help="comma list overriding the meta")
    ap.add_argument("--seed", help="VERIF_SEED for the checks (seed-robustness sweeps)")
    ap.add_argument("--record", default="results.json", help="file under mutants/ receiving the verdicts")
    ap.add_argument("--shard", help="i/n: only every n-th patch starting at i (run several shards side by side, merge the records)")
    a = ap.parse_args()
    rows = []
    items = collect(a.names)
    if a.shard:
        i, n = (int(v) for v in a.shard.split("/"))
        items = items[i::n]
    for name, patch, meta in items:
        props = a.props.split(",") if a.props else meta.get("props") or re.findall(r"C\d\d", name)
        tmp = tempfile.mkdtemp(prefix="synmut_")
        try:
            subprocess.run(["rsync", "-a", "--exclude", ".git", "--exclude", "__pycache__", REPO + "/", tmp + "/"], check=True)
            r = subprocess.run(["patch", "-p1", "-s", "-d", tmp, "-i", patch], capture_output=True, text=True)
            if r.returncode != 0:
                rows.append((name, ",".join(props), "PATCH-FAILED", "", r.stdout.strip()[:80]))
                continue
            suite = ""
            if a.suite:
                t = subprocess.run("/venv/bin/python -m pytest -q -p no:cacheprovider -x -q 2>&1 | tail -1", shell=True,
                                   cwd=tmp, capture_output=True, text=True,
                                   env={**os.environ, "PYTHONPATH": tmp})
                suite = t.stdout.strip()[-60:]
            res = []
            for pid in props:
                t0 = time.time()
                env = {**os.environ, "VERIF_REPO": tmp, "VERIF_NO_EVIDENCE": "1"}
                if a.seed:
                    env["VERIF_SEED"] = a.seed
                tier = meta.get("tier", a.tier)       # a change only the thorough tier is built to see says so in its meta
                if tier != a.tier:
                    env["VERIF_FUZZ"] = "0"
                c = subprocess.run([os.path.join(VERIF, "check"), pid, tier], capture_output=True, text=True, env=env)
                sigs = re.findall(r"violation sig=(\S+)", c.stdout)
                res.append(f"{pid}{'[' + tier + ']' if tier != a.tier else ''}:exit{c.returncode}({time.time() - t0:.0f}s)" + (" " + ";".join(sigs[:3]) if sigs else ""))
                if c.returncode == 2:
                    res.append(c.stdout[-300:].replace("\n", " "))
            caught = any(":exit1" in x for x in res)
            rows.append((name, ",".join(props), "CAUGHT" if caught else "MISSED", suite, " | ".join(res)))
            print(rows[-1], flush=True)
        finally:
            shutil.rmtree(tmp, ignore_errors=True)
    with open(os.path.join(VERIF, "mutants", "RESULTS.md"), "a") as fh:
        fh.write(f"\n## run {time.strftime('%Y-%m-%d %H:%M')} tier={a.tier} seed={a.seed or 1} (repo {subprocess.run(['git','-C',REPO,'log','-1','--format=%h'],capture_output=True,text=True).stdout.strip()})\n\n")
        fh.write("| mutant | checks | verdict | repo suite | detail |\n|---|---|---|---|---|\n")
        for r in rows:
            fh.write("| " + " | ".join(str(x).replace("|", "/") for x in r) + " |\n")
    # machine-readable, merged over runs (latest verdict per mutant)
    jp = os.path.join(VERIF, "mutants", a.record)
    db = json.load(open(jp)) if os.path.exists(jp) else {}
    for r in rows:
        note = ""
        for n2, p2, m2 in collect([]):
            if n2 == r[0]:
                note = m2.get("note") or m2.get("summary") or ""
        db[r[0]] = {"checks": r[1], "verdict": r[2], "detail": r[4], "note": note, "tier": a.tier,
                    "seed": a.seed or os.environ.get("VERIF_SEED", "1")}
    json.dump(db, open(jp, "w"), indent=1, sort_keys=True)
    missed = [r for r in rows if r[2] != "CAUGHT"]
    print(f"{len(rows) - len(missed)}/{len(rows)} caught")
    return 0


if __name__ == "__main__":
    sys.exit(main())
