#!/venv/bin/python
"""Re-creates a sensitivity patch against the CURRENT /repo tree when a later fix: commit moved its context:
   tools/port_patch.py <out.patch> <file> <<< JSON list of [old, new] replacements   (scratch copy under /tmp, removed)"""
import json, os, shutil, subprocess, sys, tempfile
out, rel = sys.argv[1], sys.argv[2]
reps = json.load(sys.stdin)
tmp = tempfile.mkdtemp(prefix="synport_")
try:
    subprocess.run(["rsync", "-a", "--exclude", ".git", "--exclude", "__pycache__", "/repo/", tmp + "/"], check=True)
    subprocess.run("git init -q . && git add -A >/dev/null && git -c user.email=a@b -c user.name=x commit -qm base", shell=True, cwd=tmp, check=True)
    p = os.path.join(tmp, rel)
    s = open(p).read()
    for old, new in reps:
        assert s.count(old) >= 1, "context not found: " + old[:60]
        s = s.replace(old, new, 1)
    open(p, "w").write(s)
    d = subprocess.run(["git", "diff"], cwd=tmp, capture_output=True, text=True).stdout
    assert d.strip()
    open(out, "w").write(d)
    print("wrote", out, len(d.splitlines()), "lines")
finally:
    shutil.rmtree(tmp, ignore_errors=True)
