#!/venv/bin/python
"""Regenerates /verif/MANIFEST.json from the table below (keeps it schema-valid at all times)."""
import json
import os

HERE = os.path.dirname(os.path.abspath(__file__))
VERIF = os.path.dirname(HERE)

# id -> (technique, level text, level note, design ref)
CHECKS = {
    "C01": ("property-based differential testing (Hypothesis) against a finite-difference VJP oracle",
            "Generated-input search over op x shapes x arguments x values x requires-grad subsets x upstream "
            "gradients for all 26 tensor-op forms; each operand gradient is compared with central finite "
            "differences (float64) of synapgrad's own forward contracted with g; max/min ties are checked for "
            "subdifferential membership. Exploration: violations are found when a generated case hits them; "
            "absence is not proven.",
            "Trusts central differences with h=1e-6 on k/8 value grids (error <=1e-8 relative; tolerance 1e-5 / "
            "2e-3 for float32) and that the forward is deterministic; forward-rejected cases are not judged here.",
            "DESIGN.md 4/C01"),
    "C02": ("property-based differential testing (Hypothesis) against a finite-difference VJP oracle",
            "Generated-input search over every nn op/layer/loss (functional and module forms) x geometry/mode/"
            "reduction/dim x values x requires-grad subsets of data/weight/bias/gamma/beta/target x upstream "
            "gradients; each gradient is compared with central finite differences (float64) of synapgrad's own "
            "forward; relu-family kinks and max-pool ties are checked for subgradient membership.",
            "Trusts central differences on kink-free value grids (tolerance 1e-5 / 2e-3 float32); batch-norm running "
            "statistics re-created and dropout re-seeded per evaluation so the differentiated function is pure.",
            "DESIGN.md 4/C02"),
    "C03": ("property-based differential + metamorphic testing (Hypothesis) over generated DAG programs with an invariant over the backward call history",
            "Typed random programs (4-25/40 instructions over 1-4 leaves, operands among all earlier nodes: fan-out, "
            "diamonds, x op x, several outputs of one unbind, mixed requires-grad) are resolved to SSA form, run with "
            "tracking and differentiated from a drawn root with an arbitrary g; leaf gradients are compared with "
            "finite differences of the whole program, with the gradients of a drawn dependency-respecting permutation "
            "of the construction order, and BackwardFunction.__call__ (wrapped from outside) must fire exactly once "
            "per reachable node, never for unreachable ones, consumers before producers.",
            "Finite differences (h=1e-6, tolerance 2e-5*scale) of synapgrad's own forward under no_grad; ops restricted "
            "to those smooth on the generated values.",
            "DESIGN.md 4/C03"),
    "C04": ("model-based property testing (Hypothesis) over generated histories of build/backward/retain/reset commands",
            "Histories (command lists, shrinkable and replayable) over shared leaves - build expressions over any "
            "earlier node, backward from any node incl. leaves/former roots/interior nodes inside or outside "
            "retain_grads, retain_grad, and the three reset paths - are run next to a model of the expected leaf "
            "gradient (sum of finite-difference VJP contributions since the last reset); compared after every step; "
            "unreachable leaves must be byte-identical.",
            "Contributions come from finite differences of a NumPy re-evaluation of the recorded smooth expressions; "
            "retained non-leaf gradients are not asserted.",
            "DESIGN.md 4/C04"),
    "C05": ("property-based differential testing (Hypothesis) against independent NumPy reference models",
            "Generated-input search over every tensor op, constructor and iteration pattern; results are compared "
            "(shape exactly, values bit-exactly for data movement / to rounding for arithmetic) with an independent "
            "NumPy float64 reference written from the NumPy/PyTorch definition, under an accept/reject protocol "
            "(documented argument combinations must be accepted, others may raise but never answer differently).",
            "Trusts NumPy as the definition of broadcasting/indexing and the transcribed PyTorch semantics of "
            "squeeze/flatten/unfold/movedim in synverif/ops.py; the 1e-12 guard inside log is admitted by tolerance.",
            "DESIGN.md 4/C05"),
    "C06": ("property-based differential testing (Hypothesis) against loop-based NumPy reference models, partly exhaustive",
            "Generated-input search over every nn op/layer/loss with the full geometry/mode/reduction draw; results "
            "compared with loop-based float64 reference models transcribed from the PyTorch definitions under an "
            "accept/reject protocol; extra sub-checks for padding='same'/'valid', no-window rejection, the BCE "
            "clamp, and an enumerated 1-D output-size grid (L<=8,k<=4,s<=4,p<=3,d<=3; exhaustive in thorough).",
            "Trusts the reference models in synverif/nnops.py and ref_conv.py; tolerance 1e-4*scale float32, "
            "1e-10*scale float64, bit-exact for max-pool/unfold.",
            "DESIGN.md 4/C06"),
    "C07": ("model-based property testing (Hypothesis) over generated tree-structured programs",
            "Programs with nested with-blocks (fresh, stored-and-entered-later, re-used context objects), try/raise, "
            "leaf creation in three dtypes, ops, flag toggles, retain_grad and backward are interpreted with real "
            "`with` statements next to an explicit stack model of (grad enabled, retain all) and of every tensor's "
            "requires_grad/is_leaf/grad_fn; a probe after every context exit checks the restored mode.",
            "Does not generate nested re-entry of the same context object; mixed retain cases are recorded, not asserted.",
            "DESIGN.md 4/C07"),
    "C08": ("model-based property testing (Hypothesis) over generated optimizer histories against reference optimizers",
            "Histories of {backward (exact gradients), zero_grad, step} with drawn hyper-parameters, parameter sets "
            "(some frozen, one not given) and dtypes are run for SGD/Adam/AdamW next to float64 reference "
            "implementations of the published update rules; after every step: trajectory equality, same ndarray "
            "object, dtype/shape, frozen/not-given parameters byte-identical, gradients untouched; plus the SGD "
            "constructor contract.",
            "Reference optimizers transcribe the torch.optim documentation pseudo-code; steps are only issued once "
            "every trainable parameter has a gradient; float32 trajectories are compared per step at 2e-5 relative.",
            "DESIGN.md 4/C08"),
    "C09": ("property-based differential testing (Hypothesis) against high-precision stable reference formulas",
            "Generated-input search over float32/float64 inputs up to 1e4 (exp-overflow thresholds salted in) and "
            "logit rows with spreads up to 2e4 for sigmoid/tanh/selu/softmax/log_softmax/cross-entropy/"
            "BCE-with-logits (functional and module forms): outputs and input gradients must be finite and within "
            "8*eps32*max(1,|x|max) of float64 stable formulas (scipy.special) and closed-form gradients.",
            "Trusts scipy.special expit/softmax/log_softmax and numpy expm1/log1p as exact to double rounding.",
            "DESIGN.md 4/C09"),
    "C10": ("property-based invariant + metamorphic testing (Hypothesis) over both op catalogues",
            "Generated-input search over every tensor and nn op x {float32,float64} x scalar/tensor operands x "
            "result ranks incl. 0-d x upstream gradient of either dtype x (result as root | result retained as an "
            "interior node): dtype/shape predicates on results, leaf/root/retained gradients, and float32-vs-float64 "
            "agreement of the same call.",
            "Assumes operands of one call share a dtype; reference shapes come from the catalogue's NumPy models.",
            "DESIGN.md 4/C10"),
    "C11": ("property-based invariant testing (Hypothesis): byte snapshots around forward/backward with aliased operands",
            "Generated-input search over every op/layer/loss with operands laid out independently, as views of one "
            "shared buffer, aliasing the same memory, or reused; byte-level snapshots of operands, targets, the "
            "caller's upstream gradient and a bystander tensor are compared before/after forward, backward and a "
            "second backward through the first root; forward repetition must be bit-identical; clone/detach storage "
            "independence; documented in-place calls touch only what they document.",
            "Assumes Tensor(ndarray) wraps the array without copying (checked per case, otherwise the case is skipped).",
            "DESIGN.md 4/C11"),
    "C12": ("model-based property testing (Hypothesis) over generated module-tree histories",
            "Histories creating modules (custom, Linear, Sequential positional/OrderedDict) and parameters, assigning / "
            "re-assigning / registering attributes, sharing children between parents and calling "
            "train/eval/freeze/unfreeze/zero_grad on any node are checked after every command against an explicit "
            "ordered, de-duplicated registry model (parameters(), submodules(), num_params split, training flags, "
            "requires_grad and gradients of reachable vs unreachable parameters); Sequential output equals the "
            "composition in registration order.",
            "Cycles are not generated; zero_grad on frozen parameters is not asserted.",
            "DESIGN.md 4/C12"),
    "C13": ("model-based + statistical property testing (Hypothesis) over train/eval/forward histories",
            "BatchNorm1d/2d histories (all constructor options, batches of any size/rank, loaded running statistics) "
            "are compared after every call with a float64 reference state machine (outputs, running mean / unbiased "
            "running variance, counter; eval calls byte-identical state and deterministic); Dropout histories check "
            "the exact 0-or-x/(1-p) algebra, identity in eval, backward through the same mask, and seeded 6-sigma "
            "tests of the zero rate, lag-1 and cross-call mask correlation.",
            "Statistical assertions are 6-sigma with seeds drawn by Hypothesis; tolerance 2e-4 (float32) / 1e-9 (float64).",
            "DESIGN.md 4/C13"),
    "C14": ("property-based metamorphic testing (Hypothesis): both sides of each documented identity built from the library itself",
            "For 17 documented identities (cross-entropy/NLL/log_softmax, BCE pair, log(softmax), linear, addmm, "
            "conv2d=W_flat@unfold, conv1d via a height-1 image, max/avg pooling via unfold windows, a-b, a/b, mean, "
            "stack/concat, unbind(stack), flatten/reshape, adjacent movedim/transpose, Neuron/Linear, Sequential) "
            "operands are generated by the corresponding op generators; outputs and every operand gradient of both "
            "sides must agree.",
            "Both sides are synapgrad computations (a defect shared by both sides is C01/C02/C06's to find); moderate "
            "logits for the sigmoid/BCE and log(softmax) pairs.",
            "DESIGN.md 4/C14"),
    "C15": ("statistical property-based testing (Hypothesis) with independently computed scales",
            "Each initialiser is run on drawn shapes (4096-40000 elements), gains, modes, nonlinearities, slopes, "
            "dtypes and seeds; identity/shape/dtype/flag invariants, bounds (uniform), mean/std within 6 standard "
            "errors of the independently computed documented scale, KS test (normal, 1e-9); constants exact; invalid "
            "mode/nonlinearity/rank raise; Linear/Conv layers start from U(+-1/sqrt(fan_in)).",
            "6-sigma / 1e-9 statistical bounds with Hypothesis-drawn library seeds; gain table and fan computation "
            "transcribed from the docstrings.",
            "DESIGN.md 4/C15"),
    "C17": ("property-based testing (Hypothesis) with generated graph sizes: completion, closed-form gradients, call-count and liveness invariants",
            "Chains / wide graphs / diamond ladders with generated depth up to 1e4 (quick) / 5e4 (thorough) must "
            "complete backward, give the closed-form leaf gradient and invoke each recorded op's backward exactly "
            "once; Python-level call counts of backward for sizes n and 2n must scale at most 2.2x; in untracked "
            "loops (no_grad / no operand requires grad, up to 1e4 iterations) every intermediate except the last "
            "must be dead (weak references after gc).",
            "Sizes are explored up to 5e4 sequential ops; cost is asserted on deterministic call counts, not time; "
            "each task has a wall-clock guard that reports 'inconclusive' (exit 2), never a violation.",
            "DESIGN.md 4/C17"),
    "C18": ("property-based testing (Hypothesis) with validity predicates, plus an enumerated small space",
            "split_dataset (lengths 0-60, awkward and arbitrary fractions, validation optional, shuffle with drawn "
            "seed): partition, pairing, floor-rule sizes (float or exact-rational arithmetic accepted), order when "
            "shuffle is off, seed determinism; DataLoader (any batch size, with/without transform, abandoned and "
            "repeated passes): length, consecutive aligned batches of exactly batch_size, re-iteration from the "
            "start, transform contract; one_hot_encode vs a reference over label sets with gaps/negatives/floats/"
            "strings; enumerated grid of small lengths x fraction pool x batch sizes.",
            "Sample ids are exact in float32; both floor arithmetics are accepted.",
            "DESIGN.md 4/C18"),
    "C16": ("property-based differential + metamorphic testing (Hypothesis) with an enumerated geometry grid",
            "Generated-input search: the three im2col and three col2im implementations, extract_windows and "
            "place_windows are compared bit-wise against a brute-force loop reference, and the adjoint and "
            "coverage-count identities are checked exactly on integer-valued data, over random geometries and "
            "(thorough) the complete grid H,W<=5,k<=3,s<=3,p<=2,d<=2 per axis. Exploration, not proof: absence "
            "of violations is only established for the explored geometries.",
            "Trusts NumPy integer-valued float arithmetic to be exact and the brute-force reference in "
            "synverif/ref_conv.py (torch.nn.Unfold/Fold definition).",
            "DESIGN.md 4/C16"),
    "C19": ("property-based metamorphic testing (Hypothesis): digest equality of generated programs across re-execution, fresh processes and repetitions",
            "Generated programs over all random-consuming APIs, training steps and a fixed-data DAG with fan-out are "
            "executed after manual_seed(s); the SHA-256 digest of everything produced must be identical for two "
            "in-process runs, across fresh subprocesses with PYTHONHASHSEED in {0,1,4242,random} and drawn allocation "
            "perturbations (junk objects, unrelated imports before the library is imported), and for the fixed-data "
            "part across 1-5 repetitions; different seeds must give different digests when the program draws.",
            "Allocation layouts / hash seeds are sampled, not enumerated; BLAS threads pinned to 1 in all processes.",
            "DESIGN.md 4/C19"),
    "C20": ("property-based testing (Hypothesis) of generated training configurations with an invariant over the recorded event history",
            "Trainer.fit/test are run for generated configurations (epochs 0-3, 1-4 batches, optional validation, "
            "evaluator modes, callbacks, models with BatchNorm/Dropout, five losses, SGD/Adam) with spies installed from "
            "outside on optimizer.step/zero_grad, model.forward, the loss callable and loss.backward; the event log "
            "must show exactly epochs*len(loader) steps in the order forward(train)->zero_grad->backward->step, eval "
            "mode on every submodule and tracking off during validation/test, unchanged parameters/running statistics "
            "across validation and test, restored gradient mode, history keys/lengths, epoch loss = mean of recorded "
            "batch losses, accuracies equal to a reference count.",
            "Single-sample batches and empty loaders are not generated; the progress bar is a stand-in.",
            "DESIGN.md 4/C20"),
}

NOT_YET = "check not built yet in this session (work in progress; see DESIGN.md section 8)"

ALL = [f"C{i:02d}" for i in range(1, 21)]


def main():
    checks = []
    for pid in ALL:
        if pid not in CHECKS:
            continue
        tech, text, note, ref = CHECKS[pid]
        text += (" The generated domain was widened in seven rounds of sub-agent-seeded changes (families are listed in the "
                 "evidence file's coverage.rule and in DESIGN.md section 10); the thorough tier ends with a coverage-guided "
                 "(atheris) stage over the same strategies and oracles.")
        ref += "; A (as built); 10 (sensitivity)"
        checks.append({
            "property_id": pid,
            "quick_cmd": f"./check {pid} quick",
            "thorough_cmd": f"./check {pid} thorough",
            "evidence_file": f"/verif/evidence/{pid}.json",
            "replay_cmd_template": "./check --replay {path}",
            "engine": "synverif",
            "level_claimed": {"category": "exploration", "text": text, "design_ref": ref},
            "level_note": note,
            "technique": tech,
        })
    man = {
        "version": 1,
        "setup_cmd": "./setup.sh",
        "hooks": {
            "guard": "SYNAPGRAD_VERIF",
            "enable": "no source hooks are needed: checks observe pgmesa/synapgrad through its public API from "
                      "a fresh interpreter importing /repo's working tree (SYNAPGRAD_VERIF is reserved and unused)",
            "baseline_off_cmd": "cd /repo && /venv/bin/python -m pytest -ra -q -p no:cacheprovider --timeout=900 "
                                "--continue-on-collection-errors",
            "source_commits": [],
            "add_only": True,
        },
        "engines": [{
            "name": "synverif",
            "path": "/verif/synverif",
            "serves_properties": [c["property_id"] for c in checks],
            "kind_free_text": "Hypothesis-driven property-based testing framework: generated cases / command "
                              "histories, explicit oracles (finite-difference VJP, loop-based NumPy reference "
                              "models, metamorphic identities, model-based state), 16-process sharding, shrinking "
                              "to JSON replay files, evidence writer; the thorough tier ends with a coverage-"
                              "guided stage (atheris/libFuzzer mutating byte strings that Hypothesis' fuzz_one_input "
                              "decodes through the same strategies and judges with the same oracles; failures are "
                              "shrunk by Hypothesis from its example database)",
        }],
        "checks": checks,
        "not_applicable": [{"property_id": p, "reason": NOT_YET} for p in ALL if p not in CHECKS],
        "notes": "Exit codes of every check: 0 held on everything explored (KNOWN-FINDING lines possible), 1 with "
                 "VIOLATION lines, 2 harness problem. VERIF_SEED selects the run; KNOWN_FINDINGS.txt lists open "
                 "findings and fixed defects. `./check <ID> fuzz` runs the coverage-guided stage alone "
                 "(VERIF_FUZZ_EXECS / VERIF_FUZZ_SECONDS per sub-check; VERIF_FUZZ=0 leaves it out of thorough).",
    }
    with open(os.path.join(VERIF, "MANIFEST.json"), "w") as fh:
        json.dump(man, fh, indent=1)
    print("wrote MANIFEST.json with", len(checks), "checks")


if __name__ == "__main__":
    main()
