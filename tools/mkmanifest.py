#!/venv/bin/python
"""Regenerates /verif/MANIFEST.json from the table below (keeps it schema-valid at all times)."""
import json
import os

HERE = os.path.dirname(os.path.abspath(__file__))
VERIF = os.path.dirname(HERE)

# id -> (technique, level text, level note, design ref)
CHECKS = {
    "C16": ("property-based differential + metamorphic testing (Hypothesis) with an enumerated geometry grid",
            "Generated-input search: the three im2col and three col2im implementations, extract_windows and "
            "place_windows are compared bit-wise against a brute-force loop reference, and the adjoint and "
            "coverage-count identities are checked exactly on integer-valued data, over random geometries and "
            "(thorough) the complete grid H,W<=5,k<=3,s<=3,p<=2,d<=2 per axis. Exploration, not proof: absence "
            "of violations is only established for the explored geometries.",
            "Trusts NumPy integer-valued float arithmetic to be exact and the brute-force reference in "
            "synverif/ref_conv.py (torch.nn.Unfold/Fold definition).",
            "DESIGN.md 4/C16"),
}

NOT_YET = "check not built yet in this session (work in progress; see DESIGN.md section 8)"

ALL = [f"C{i:02d}" for i in range(1, 21)]


def main():
    checks = []
    for pid in ALL:
        if pid not in CHECKS:
            continue
        tech, text, note, ref = CHECKS[pid]
        checks.append({
            "property_id": pid,
            "quick_cmd": f"./check {pid} quick",
            "thorough_cmd": f"./check {pid} thorough",
            "evidence_file": f"/verif/evidence/{pid}.json",
            "replay_cmd_template": "./check --replay {path}",
            "engine": "synverif",
            "level_claimed": {"category": "exploration", "text": text, "design_ref": ref},
            "level_note": note,
            "technique": tech,
        })
    man = {
        "version": 1,
        "setup_cmd": "./setup.sh",
        "hooks": {
            "guard": "SYNAPGRAD_VERIF",
            "enable": "no source hooks are needed: checks observe pgmesa/synapgrad through its public API from "
                      "a fresh interpreter importing /repo's working tree (SYNAPGRAD_VERIF is reserved and unused)",
            "baseline_off_cmd": "cd /repo && /venv/bin/python -m pytest -ra -q -p no:cacheprovider --timeout=900 "
                                "--continue-on-collection-errors",
            "source_commits": [],
            "add_only": True,
        },
        "engines": [{
            "name": "synverif",
            "path": "/verif/synverif",
            "serves_properties": [c["property_id"] for c in checks],
            "kind_free_text": "Hypothesis-driven property-based testing framework: generated cases / command "
                              "histories, explicit oracles (finite-difference VJP, loop-based NumPy reference "
                              "models, metamorphic identities, model-based state), 16-process sharding, shrinking "
                              "to JSON replay files, evidence writer",
        }],
        "checks": checks,
        "not_applicable": [{"property_id": p, "reason": NOT_YET} for p in ALL if p not in CHECKS],
        "notes": "Exit codes of every check: 0 held on everything explored (KNOWN-FINDING lines possible), 1 with "
                 "VIOLATION lines, 2 harness problem. VERIF_SEED selects the run; KNOWN_FINDINGS.txt lists open "
                 "findings and fixed defects.",
    }
    with open(os.path.join(VERIF, "MANIFEST.json"), "w") as fh:
        json.dump(man, fh, indent=1)
    print("wrote MANIFEST.json with", len(checks), "checks")


if __name__ == "__main__":
    main()
