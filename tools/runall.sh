#!/bin/sh
# runs every registered check (quick by default) and validates manifest + evidence against the schemas
cd "$(dirname "$0")/.." || exit 2
tier=${1:-quick}
mkdir -p out
rc=0
for p in C01 C02 C03 C04 C05 C06 C07 C08 C09 C10 C11 C12 C13 C14 C15 C16 C17 C18 C19 C20; do
  ./check $p $tier > out/run_$p.log 2>&1; e=$?
  tail -1 out/run_$p.log | cut -c1-160
  [ $e -ne 0 ] && { echo "  exit $e for $p"; grep -E "VIOLATION|HARNESS" out/run_$p.log | head -5; rc=1; }
done
python3-vt - <<'PY'
import json, jsonschema, glob
m=json.load(open('MANIFEST.json')); jsonschema.validate(m, json.load(open('/root/.vp/MANIFEST.schema.json')))
es=json.load(open('/root/.vp/EVIDENCE.schema.json'))
for c in m['checks']:
    e=json.load(open(c['evidence_file'])); jsonschema.validate(e, es)
print('manifest and', len(m['checks']), 'evidence files validate')
PY
exit $rc
