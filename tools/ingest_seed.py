#!/venv/bin/python
"""Confirms a sub-agent's seeded change and stores it under /verif/seeded/<pid>_<i>/.
usage: tools/ingest_seed.py C09 [/tmp/wt_C09/_seed]"""
import json, os, shutil, subprocess, sys, tempfile
VERIF = os.path.dirname(os.path.dirname(os.path.abspath(__file__)))
pid = sys.argv[1]
src = sys.argv[2] if len(sys.argv) > 2 else f"/tmp/wt_{pid}/_seed"
for i in sorted(os.listdir(src)):
    d = os.path.join(src, i)
    if not os.path.exists(os.path.join(d, "patch.diff")):
        continue
    tmp = tempfile.mkdtemp(prefix="syning_")
    try:
        subprocess.run(["rsync", "-a", "--exclude", ".git", "--exclude", "__pycache__", "--exclude", "_seed", "/repo/", tmp + "/"], check=True)
        env = {**os.environ, "PYTHONPATH": "/repo", "MPLBACKEND": "Agg"}
        a = subprocess.run(["/venv/bin/python", os.path.join(d, "demo.py")], capture_output=True, text=True, env=env, cwd="/tmp")
        r = subprocess.run(["patch", "-p1", "-s", "-d", tmp, "-i", os.path.join(d, "patch.diff")], capture_output=True, text=True)
        if r.returncode != 0:
            print(pid, i, "PATCH FAILED", r.stdout[:200]); continue
        env2 = {**os.environ, "PYTHONPATH": tmp, "MPLBACKEND": "Agg"}
        b = subprocess.run(["/venv/bin/python", os.path.join(d, "demo.py")], capture_output=True, text=True, env=env2, cwd="/tmp")
        t = subprocess.run("/venv/bin/python -m pytest -q -p no:cacheprovider 2>&1 | tail -1", shell=True, cwd=tmp, capture_output=True, text=True, env=env2)
        suite = t.stdout.strip()
        ok = a.returncode == 0 and b.returncode != 0 and "passed" in suite and "failed" not in suite
        print(pid, i, "pristine demo exit", a.returncode, "| patched demo exit", b.returncode, "| suite:", suite, "| CONFIRMED" if ok else "| REJECTED")
        if not ok:
            print("   pristine stderr:", a.stderr[-300:], "\n   patched stderr:", b.stderr[-300:])
            continue
        dst = os.path.join(VERIF, "seeded", f"{pid}_{i}")
        os.makedirs(dst, exist_ok=True)
        for f in ("patch.diff", "demo.py"):
            shutil.copy(os.path.join(d, f), os.path.join(dst, f))
        meta = json.load(open(os.path.join(d, "meta.json")))
        meta["props"] = [pid]
        meta["confirmed"] = {"repo_commit": subprocess.run(["git", "-C", "/repo", "log", "-1", "--format=%h"], capture_output=True, text=True).stdout.strip(),
                             "ran": ["PYTHONPATH=/repo python demo.py -> exit 0", f"PYTHONPATH=<patched copy> python demo.py -> exit {b.returncode}",
                                     f"patched copy: python -m pytest -> {suite}"]}
        json.dump(meta, open(os.path.join(dst, "meta.json"), "w"), indent=1)
    finally:
        shutil.rmtree(tmp, ignore_errors=True)
