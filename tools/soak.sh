#!/bin/sh
# soak: every quick check at several seeds; prints only alarms  (tools/soak.sh 11 12 13 ...)
cd "$(dirname "$0")/.." || exit 2
mkdir -p out
for s in "$@"; do
  for p in C01 C02 C03 C04 C05 C06 C07 C08 C09 C10 C11 C12 C13 C14 C15 C16 C17 C18 C19 C20; do
    VERIF_SEED=$s VERIF_NO_EVIDENCE=1 ./check $p quick > out/soak_${p}_$s.log 2>&1; e=$?
    [ $e -ne 0 ] && { echo "seed $s $p exit $e"; grep -A1 -E "violation sig|HARNESS" out/soak_${p}_$s.log | head -6 | cut -c1-700; }
  done
  echo "seed $s done"
done
