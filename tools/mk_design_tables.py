#!/venv/bin/python
"""Injects generated tables into DESIGN.md between <!-- BEGIN x --> / <!-- END x --> markers:
 FINDINGS (from KNOWN_FINDINGS.txt) and SENSITIVITY (from mutants/results.json)."""
import json, os, re
VERIF = os.path.dirname(os.path.dirname(os.path.abspath(__file__)))
d = open(os.path.join(VERIF, "DESIGN.md")).read()

rows = []
for line in open(os.path.join(VERIF, "KNOWN_FINDINGS.txt")):
    m = re.match(r"(fixed|finding):\s+property=(C\d\d)\s+(\S+)\s+(.*)", line.strip())
    if m:
        kind, pid, tok, text = m.groups()
        rows.append((pid, kind, tok if kind == "fixed" else "-", text.replace("|", "/")))
rows.sort()
ft = "| property | status | repo commit | what failed (replay under /verif/replays) |\n|---|---|---|---|\n"
ft += "\n".join(f"| {a} | {b} | `{c}` | {t} |" for a, b, c, t in rows) + "\n"
ft += f"\n{sum(1 for r in rows if r[1]=='fixed')} defects repaired by `fix:` commits, {sum(1 for r in rows if r[1]=='finding')} open findings.\n"

jp = os.path.join(VERIF, "mutants", "results.json")
st = "(no sensitivity run recorded yet)\n"
if os.path.exists(jp):
    db = json.load(open(jp))
    st = "| change | kind | checks run | verdict | which sub-checks fired / note |\n|---|---|---|---|---|\n"
    def kind(n):
        return "seeded by sub-agent" if n.startswith("seeded/") else ("reverse of a fix commit" if n.startswith("revfix_") else "hand-written")
    for n in sorted(db):
        r = db[n]
        verdict = r["verdict"]
        if "EQUIVALENT" in (r.get("note") or "") and verdict == "MISSED":
            verdict = "QUIET (equivalent change: must not alarm)"
        det = re.sub(r"\s+", " ", r["detail"])[:230].replace("|", "/")
        note = (r.get("note") or "")[:160].replace("|", "/")
        st += f"| {n} | {kind(n)} | {r['checks']} | {verdict} | {det} — {note} |\n"
    tot = len(db); caught = sum(1 for r in db.values() if r["verdict"] == "CAUGHT")
    st += f"\n{caught} of {tot} changes caught by the checks named for them (quick tier unless the row says [thorough]); the remaining entries are equivalent changes that must stay quiet or are discussed below.\n"

# ---- per-property sub-check inventory, straight from the code -------------------------------------------------
import importlib, sys
sys.path.insert(0, VERIF)
sb = "| property | sub-checks (quick examples x shards / thorough examples x shards; `enum` = enumerated grid) |\n|---|---|\n"
try:
    from synverif import env  # noqa: F401
    for i in range(1, 21):
        pid = f"C{i:02d}"
        mod = importlib.import_module(f"synverif.props.{pid.lower()}")
        subs = mod.subchecks()
        groups = {}
        for s_ in subs:
            key = (s_.quick, s_.shards_quick, s_.thorough, s_.shards_thorough, s_.enum is not None)
            groups.setdefault(key, []).append(s_.name)
        parts = []
        for (q, sq, t, stt, en), names in groups.items():
            shown = ", ".join(names[:6]) + (f", ... ({len(names)} in all)" if len(names) > 6 else "")
            parts.append(f"{shown}: " + ("enum" if en else f"{q}x{sq} / {t}x{stt}"))
        sb += f"| {pid} | " + "; ".join(parts).replace("|", "/") + " |\n"
except Exception as e:  # noqa: BLE001
    sb = f"(could not import the property modules: {e})\n"

for tag, body in (("FINDINGS", ft), ("SENSITIVITY", st), ("SUBCHECKS", sb)):
    pat = re.compile(rf"(<!-- BEGIN {tag} -->).*?(<!-- END {tag} -->)", re.S)
    if not pat.search(d):
        raise SystemExit(f"marker {tag} missing in DESIGN.md")
    d = pat.sub(lambda m: m.group(1) + "\n" + body + m.group(2), d)
open(os.path.join(VERIF, "DESIGN.md"), "w").write(d)
print("DESIGN.md tables regenerated")
