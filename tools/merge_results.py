#!/venv/bin/python
"""Merges the sharded records mutants/results_final_*.json into mutants/results.json (only patches that still exist)."""
import glob, json, os
VERIF = os.path.dirname(os.path.dirname(os.path.abspath(__file__)))
db = {}
for f in sorted(glob.glob(os.path.join(VERIF, "mutants", "results_final_*.json"))):
    db.update(json.load(open(f)))
keep = {}
for name, v in db.items():
    path = os.path.join(VERIF, name, "patch.diff") if name.startswith("seeded/") else os.path.join(VERIF, "mutants", name + ".patch")
    if os.path.exists(path):
        keep[name] = v
json.dump(keep, open(os.path.join(VERIF, "mutants", "results.json"), "w"), indent=1, sort_keys=True)
missed = sorted(k for k, v in keep.items() if v["verdict"] != "CAUGHT")
print(len(keep), "results;", len(missed), "not caught:", missed)
